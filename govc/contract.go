package main

import (
	"fmt"
	"sort"
	"strconv"
	"strings"
)

// Clause is one requires/ensures/invariant expression with its source.
type Clause struct {
	Src  string
	E    Expr
	File string
	Line int
}

type Track struct {
	Name   string
	Kind   string // "invoke" (interface method), "call" (static fn id), "field" (call through a func-typed field), "fnparam" (call of a parameter)
	Target string
}

type LoopSpec struct {
	Inv      []Clause
	Modifies []string // optional extra
}

type AssertAt struct {
	Callee  string
	Ordinal int
	C       Clause
}

// Contract for a function, an interface method or an extern.
type Contract struct {
	Kind     string // "func", "iface", "extern", "callback"
	ID       string
	Props    []string
	Arith    string // "int" or "bv" ("" = int)
	Flags    map[string]bool
	Requires []Clause
	Assumes  []Clause // preconditions checked at static call sites but not derivable from a refined interface contract (reported as unchecked assumptions)
	Ensures  []Clause
	Panics   []Clause
	Modifies []string // raw items
	ModSet   bool     // a modifies clause was given
	Loops    map[int]*LoopSpec
	Tracks   []Track
	Asserts  []AssertAt
	Params   []string // for iface/extern/callback: optional explicit parameter names
	Refines  []string // interface method contracts this function must satisfy
	Is       string   // callback only: the function value called here is exactly this static function (checked at the call: callee.is), whose contract is then used
	GhostSets []GhostSet // ghost assignments performed by the function (ghost code)
	StepInvs []Clause // asserted (obligation, then fact) after every call of the function, once its names are bound
	MayPanicCalls []string // callees whose calls in this function may panic (user values behind a general interface)
	GhostAts []GhostAt
	NoLock   []Clause   // locks that must not be held at any blocking channel operation of the function
	File     string
	Line     int
	Used     bool
}

// GhostSet: "ghost-set name[idx] = expr" - the function, by definition, extends ghost state;
// expr and idx are evaluated in the entry state. It is ghost code executed at the return.
type GhostSet struct {
	Post bool // index and value are evaluated in the return state (may mention results)
	Name string
	Idx  Expr
	Val  Clause
}

type SpecFunc struct {
	Name   string
	Params []QVar
	Ret    string
	Body   *Clause // nil = uninterpreted
	Macro  bool    // expanded inline in the state of the use site (may read the heap)
	File   string  // defining file (a macro's body is resolved in that file's package)
}

// Theory: a background theory given as raw SMT-LIB text (sorts, datatypes, defined functions,
// axioms), with the signatures contracts may use. Emitted once into a query when referenced.
type Theory struct {
	Name   string
	Sorts  map[string]bool
	Consts map[string]string // name -> sort
	Funs   map[string]*TheoryFun
	Smt    []string
	Axioms []string // names of the quantified assertions (reported as trusted)
	Defs   []string // names of definitional axioms (recursive definitions of the theory's symbols)
	Proved []string // names of axioms discharged as theory obligations (theoryproof.go)
	Items  []TheoryItem // every smt line in source order, proof-only ones included
	File   string
}

// TheoryItem: Kind is "smt" (declaration / definition text), "trusted", "def", "proved", "proof-def"
// (definition used only inside the theory proofs, not exported to verification conditions) or
// "proof-lemma" (proved, proof-only).
type TheoryItem struct {
	Kind, Name, Text string
	Induct           string // "", "induct <bytes var>", "natinduct <int var>"
}

type TheoryFun struct {
	Name   string
	Params []string // spec type names
	Ret    string
}

// GhostAt: a ghost assignment attached to a call site of the function under contract.
type GhostAt struct {
	Callee  string
	Ordinal int
	Before  bool
	Name    string
	Idx     Expr
	Val     Clause
}

type Axiom struct {
	Name  string
	Proof string // "" = assumed; "natinduct k" / "induct b" / "direct": discharged as an obligation from the axioms declared before it (theoryproof.go)
	C     Clause
	Uses []string // spec funcs mentioned (filled lazily)
}

type GhostVar struct {
	Name string
	Sort string
}

// GuardDecl: "guarded [var] T.f by mu" (lock discipline) or "onceinit T.f by Once" (once-only initialisation).
type GuardDecl struct {
	Kind   string // "field", "var", "once"
	Target string // pkg.Type.field or pkg.var
	By     string // field name of the lock / Once in the same struct, or pkg.var of the lock
	Props  []string
	File   string
	Line   int
}

// TypeInv: "typeinv <type> <var>: expr" - an invariant of every value of a zap-private type that is
// reachable through an interface: established where the value is converted to an interface,
// assumed for the receiver where a method is verified against an interface contract.
type TypeInv struct {
	Type string
	Var  string
	C    Clause
}

type Contracts struct {
	Atomics   map[string][]string // pkg.T.f -> properties: the field's type is a sync/atomic type
	Immutable map[string][]string // struct type -> properties: fields are stored to only while the object is unpublished
	stable   map[string]bool
	TypeInvs map[string]*TypeInv
	Guards map[string]*GuardDecl
	Theories []*Theory
	ByID   map[string]*Contract
	Specs  map[string]*SpecFunc
	Axioms []*Axiom
	Ghosts map[string]*GhostVar
	Order  []string
}

var clauseKeywords = map[string]bool{
	"func": true, "iface": true, "extern": true, "callback": true, "spec": true, "axiom": true, "ghost": true,
	"props": true, "arith": true, "flags": true, "requires": true, "ensures": true, "modifies": true,
	"loop": true, "track": true, "panics": true, "statement": true, "refines": true, "ghost-set": true, "params": true, "assert": true, "lemma": true,
	"guarded": true, "onceinit": true, "nolock": true,
	"theory": true, "sort": true, "const": true, "fun": true, "smt": true, "macro": true, "ghost-at": true, "ghost-set-post": true, "trusted-axiom": true, "def-axiom": true, "proved-axiom": true, "proof-def": true, "proof-lemma": true, "canary": true, "typeinv": true, "immutable": true, "atomic": true, "is": true, "assumes": true, "maypanic-call": true, "stepinv": true,
}

func parseContracts(srcs []contractSource) (*Contracts, error) {
	cs := &Contracts{Immutable: map[string][]string{}, TypeInvs: map[string]*TypeInv{}, Guards: map[string]*GuardDecl{}, ByID: map[string]*Contract{}, Specs: map[string]*SpecFunc{}, Ghosts: map[string]*GhostVar{}}
	for _, src := range srcs {
		// join continuation lines
		type ln struct {
			s    string
			line int
		}
		var lines []ln
		for i, raw := range src.Lines {
			t := strings.TrimSpace(raw)
			if i2 := strings.Index(t, " //"); i2 >= 0 && !strings.Contains(t[:i2], "\"") {
				t = strings.TrimSpace(t[:i2])
			}
			if t == "" || strings.HasPrefix(t, "//") || strings.HasPrefix(t, "#") {
				continue
			}
			first := t
			if j := strings.IndexAny(t, " \t"); j >= 0 {
				first = t[:j]
			}
			if clauseKeywords[first] || len(lines) == 0 {
				lines = append(lines, ln{t, src.Line0[i]})
			} else {
				lines[len(lines)-1].s += " " + t
			}
		}
		var cur *Contract
		var curTh *Theory
		for _, l := range lines {
			kw, rest := l.s, ""
			if j := strings.IndexAny(l.s, " \t"); j >= 0 {
				kw, rest = l.s[:j], strings.TrimSpace(l.s[j+1:])
			}
			errf := func(f string, a ...interface{}) error {
				return fmt.Errorf("%s:%d: %s", src.File, l.line, fmt.Sprintf(f, a...))
			}
			mkClause := func(s string) (Clause, error) {
				e, err := parseExpr(s)
				if err != nil {
					return Clause{}, errf("%v", err)
				}
				return Clause{Src: s, E: e, File: src.File, Line: l.line}, nil
			}
			switch kw {
			case "func", "iface", "callback":
				curTh = nil
				id := rest
				cur = &Contract{Kind: kw, ID: id, Flags: map[string]bool{}, Loops: map[int]*LoopSpec{}, File: src.File, Line: l.line}
				if _, dup := cs.ByID[kw+" "+id]; dup {
					return nil, errf("duplicate contract for %s %s", kw, id)
				}
				cs.ByID[kw+" "+id] = cur
				cs.Order = append(cs.Order, kw+" "+id)
			case "extern":
				id := strings.TrimSpace(strings.TrimPrefix(rest, "func"))
				cur = &Contract{Kind: "extern", ID: id, Flags: map[string]bool{}, Loops: map[int]*LoopSpec{}, File: src.File, Line: l.line}
				if _, dup := cs.ByID["func "+id]; dup {
					return nil, errf("duplicate contract for %s", id)
				}
				cs.ByID["func "+id] = cur
				cs.Order = append(cs.Order, "func "+id)
			case "atomic":
				// atomic <pkg.T.f> [props P...]: the field is accessed by several goroutines without a lock; its type must be
				// one of sync/atomic's types (or a pointer to one), so that every access is an atomic operation by construction
				fs := strings.Fields(rest)
				if len(fs) == 0 {
					return nil, errf("atomic <pkg.Type.field> [props ...]")
				}
				var props []string
				if len(fs) > 2 && fs[1] == "props" {
					props = fs[2:]
				}
				if cs.Atomics == nil {
					cs.Atomics = map[string][]string{}
				}
				cs.Atomics[fs[0]] = props
				cur = nil
			case "immutable":
				// immutable <struct type> [props P...]
				fs := strings.Fields(rest)
				if len(fs) == 0 {
					return nil, errf("immutable <type> [props ...]")
				}
				var props []string
				if len(fs) > 2 && fs[1] == "props" {
					props = fs[2:]
				}
				cs.Immutable[fs[0]] = props
				cur = nil
			case "typeinv":
				j := strings.Index(rest, ":")
				if j < 0 {
					return nil, errf("typeinv <type> <var>: expr")
				}
				fs := strings.Fields(rest[:j])
				if len(fs) != 2 {
					return nil, errf("typeinv <type> <var>: expr")
				}
				c, err := mkClause(strings.TrimSpace(rest[j+1:]))
				if err != nil {
					return nil, err
				}
				fs[0] = aliasRe.ReplaceAllStringFunc(fs[0], func(m string) string { // same canonical spelling as typeString
					if m == "byte" {
						return "uint8"
					}
					return "int32"
				})
				if _, dup := cs.TypeInvs[fs[0]]; dup {
					return nil, errf("duplicate typeinv for %s", fs[0])
				}
				cs.TypeInvs[fs[0]] = &TypeInv{Type: fs[0], Var: fs[1], C: c}
				cur = nil
			case "theory":
				curTh = &Theory{Name: rest, Sorts: map[string]bool{}, Consts: map[string]string{}, Funs: map[string]*TheoryFun{}, File: src.File}
				cs.Theories = append(cs.Theories, curTh)
				cur = nil
			case "sort", "const", "fun", "smt", "trusted-axiom", "def-axiom", "proved-axiom", "proof-def", "proof-lemma", "canary":
				if curTh == nil {
					return nil, errf("%s outside a theory block", kw)
				}
				switch kw {
				case "sort":
					for _, f := range strings.Fields(rest) {
						curTh.Sorts[f] = true
					}
				case "const":
					fs := strings.Fields(rest)
					if len(fs) != 2 {
						return nil, errf("const NAME SORT")
					}
					curTh.Consts[fs[0]] = fs[1]
				case "fun":
					op, cp := strings.Index(rest, "("), strings.LastIndex(rest, ")")
					if op < 0 || cp < op {
						return nil, errf("fun name(T, U) R")
					}
					tf := &TheoryFun{Name: strings.TrimSpace(rest[:op]), Ret: strings.TrimSpace(rest[cp+1:])}
					for _, p := range splitTop(rest[op+1 : cp]) {
						if p = strings.TrimSpace(p); p != "" {
							tf.Params = append(tf.Params, p)
						}
					}
					curTh.Funs[tf.Name] = tf
				case "smt":
					curTh.Smt = append(curTh.Smt, rest)
					curTh.Items = append(curTh.Items, TheoryItem{Kind: "smt", Text: rest})
				case "def-axiom", "proved-axiom", "proof-def", "proof-lemma", "canary":
					// <kw> name [induct v | natinduct n]: (assert ...)
					j := strings.Index(rest, ":")
					if j < 0 {
						return nil, errf("%s name: (assert ...)", kw)
					}
					hd := strings.Fields(rest[:j])
					if len(hd) == 0 {
						return nil, errf("%s name: (assert ...)", kw)
					}
					it := TheoryItem{Name: hd[0], Text: strings.TrimSpace(rest[j+1:]), Induct: strings.Join(hd[1:], " ")}
					switch kw {
					case "def-axiom":
						it.Kind = "def"
						curTh.Defs = append(curTh.Defs, it.Name)
						curTh.Smt = append(curTh.Smt, it.Text)
					case "proved-axiom":
						it.Kind = "proved"
						curTh.Proved = append(curTh.Proved, it.Name)
						curTh.Smt = append(curTh.Smt, it.Text)
					case "proof-def":
						it.Kind = "proof-def"
					case "proof-lemma":
						it.Kind = "proof-lemma"
					case "canary":
						it.Kind = "canary" // a FALSE statement: it must not be provable from the theory text before it
					}
					curTh.Items = append(curTh.Items, it)
				case "trusted-axiom":
					// trusted-axiom name: (assert ...)
					j := strings.Index(rest, ":")
					if j < 0 {
						return nil, errf("trusted-axiom name: (assert ...)")
					}
					curTh.Axioms = append(curTh.Axioms, strings.TrimSpace(rest[:j]))
					curTh.Smt = append(curTh.Smt, strings.TrimSpace(rest[j+1:]))
					curTh.Items = append(curTh.Items, TheoryItem{Kind: "trusted", Name: strings.TrimSpace(rest[:j]), Text: strings.TrimSpace(rest[j+1:])})
				}
			case "spec", "macro":
				// spec func name(a T, b U) R [= expr]     |    macro name(a T) R = expr
				r := strings.TrimSpace(strings.TrimPrefix(rest, "func"))
				op := strings.Index(r, "(")
				cp := -1
				depth := 0
				for k := op; k >= 0 && k < len(r); k++ {
					if r[k] == '(' {
						depth++
					} else if r[k] == ')' {
						depth--
						if depth == 0 {
							cp = k
							break
						}
					}
				}
				if op < 0 || cp < op {
					return nil, errf("bad spec func")
				}
				sf := &SpecFunc{Name: strings.TrimSpace(r[:op]), Macro: kw == "macro", File: src.File}
				for _, p := range splitTop(r[op+1:cp]) {
					p = strings.TrimSpace(p)
					if p == "" {
						continue
					}
					fs := strings.Fields(p)
					if len(fs) != 2 {
						return nil, errf("bad spec param %q", p)
					}
					sf.Params = append(sf.Params, QVar{fs[0], fs[1]})
				}
				tail := strings.TrimSpace(r[cp+1:])
				if eq := strings.Index(tail, "="); eq >= 0 && !strings.HasPrefix(tail[eq:], "==") {
					sf.Ret = strings.TrimSpace(tail[:eq])
					c, err := mkClause(strings.TrimSpace(tail[eq+1:]))
					if err != nil {
						return nil, err
					}
					sf.Body = &c
				} else {
					sf.Ret = tail
				}
				if sf.Macro && sf.Body == nil {
					return nil, errf("macro %s needs a body", sf.Name)
				}
				if _, dup := cs.Specs[sf.Name]; dup {
					return nil, errf("duplicate spec func / macro %s", sf.Name)
				}
				cs.Specs[sf.Name] = sf
				cur = nil
			case "guarded", "onceinit":
				// guarded [var] <target> by <lock> props P...   |   onceinit <target> by <OnceField> props P...
				fs := strings.Fields(rest)
				g := &GuardDecl{Kind: "field", File: src.File, Line: l.line}
				if kw == "onceinit" {
					g.Kind = "once"
				}
				if len(fs) > 0 && fs[0] == "var" {
					g.Kind = "var"
					fs = fs[1:]
				}
				if len(fs) < 3 || fs[1] != "by" {
					return nil, errf("%s [var] <target> by <lock> [props ...]", kw)
				}
				g.Target, g.By = fs[0], fs[2]
				if len(fs) > 3 {
					if fs[3] != "props" {
						return nil, errf("%s: expected 'props', got %q", kw, fs[3])
					}
					g.Props = fs[4:]
				}
				if _, dup := cs.Guards[g.Target]; dup {
					return nil, errf("duplicate guard declaration for %s", g.Target)
				}
				cs.Guards[g.Target] = g
				cur = nil
			case "lemma":
				id := rest
				cur = &Contract{Kind: "lemma", ID: id, Flags: map[string]bool{}, Loops: map[int]*LoopSpec{}, File: src.File, Line: l.line}
				if _, dup := cs.ByID["lemma "+id]; dup {
					return nil, errf("duplicate lemma %s", id)
				}
				cs.ByID["lemma "+id] = cur
				cs.Order = append(cs.Order, "lemma "+id)
			case "axiom":
				j := strings.Index(rest, ":")
				if j < 0 {
					return nil, errf("axiom needs 'name: expr'")
				}
				c, err := mkClause(strings.TrimSpace(rest[j+1:]))
				if err != nil {
					return nil, err
				}
				hd := strings.Fields(rest[:j])
				if len(hd) == 0 {
					return nil, errf("axiom needs 'name: expr'")
				}
				cs.Axioms = append(cs.Axioms, &Axiom{Name: hd[0], Proof: strings.Join(hd[1:], " "), C: c})
				cur = nil
			case "ghost":
				fs := strings.Fields(strings.TrimPrefix(rest, "var"))
				if len(fs) < 2 {
					return nil, errf("ghost var name sort")
				}
				cs.Ghosts[fs[0]] = &GhostVar{fs[0], strings.Join(fs[1:], " ")}
				cur = nil
			default:
				if cur == nil {
					return nil, errf("clause %q outside a contract block", kw)
				}
				switch kw {
				case "props":
					cur.Props = append(cur.Props, strings.Fields(rest)...)
				case "arith":
					cur.Arith = rest
				case "flags":
					for _, f := range strings.FieldsFunc(rest, func(r rune) bool { return r == ',' || r == ' ' || r == ';' }) {
						cur.Flags[f] = true
					}
				case "ghost-set", "ghost-set-post":
					eq := strings.Index(rest, "=")
					lb := strings.Index(rest, "[")
					rb := strings.Index(rest, "]")
					if eq < 0 || lb < 0 || rb < lb || rb > eq {
						return nil, errf("ghost-set name[idx] = expr")
					}
					ie, err := parseExpr(rest[lb+1 : rb])
					if err != nil {
						return nil, errf("%v", err)
					}
					c, err := mkClause(strings.TrimSpace(rest[eq+1:]))
					if err != nil {
						return nil, err
					}
					cur.GhostSets = append(cur.GhostSets, GhostSet{Post: kw == "ghost-set-post", Name: strings.TrimSpace(rest[:lb]), Idx: ie, Val: c})
				case "ghost-at":
					// ghost-at call <n> of <callee> before|after name[idx] = expr
					fs := strings.Fields(rest)
					if len(fs) < 7 || fs[0] != "call" || fs[2] != "of" || (fs[4] != "before" && fs[4] != "after") {
						return nil, errf("ghost-at call <n> of <callee> before|after name[idx] = expr")
					}
					n, err := strconv.Atoi(fs[1])
					if err != nil {
						return nil, errf("%v", err)
					}
					body := strings.TrimSpace(rest[strings.Index(rest, " "+fs[4]+" ")+len(fs[4])+2:])
					eq := strings.Index(body, "=")
					lb := strings.Index(body, "[")
					rb := strings.Index(body, "]")
					if eq < 0 || lb < 0 || rb < lb || rb > eq {
						return nil, errf("ghost-at ...: name[idx] = expr")
					}
					ie, err := parseExpr(body[lb+1 : rb])
					if err != nil {
						return nil, errf("%v", err)
					}
					c, err := mkClause(strings.TrimSpace(body[eq+1:]))
					if err != nil {
						return nil, err
					}
					cur.GhostAts = append(cur.GhostAts, GhostAt{Callee: fs[3], Ordinal: n, Before: fs[4] == "before", Name: strings.TrimSpace(body[:lb]), Idx: ie, Val: c})
				case "stepinv":
					c, err := mkClause(rest)
					if err != nil {
						return nil, err
					}
					cur.StepInvs = append(cur.StepInvs, c)
				case "maypanic-call":
					cur.MayPanicCalls = append(cur.MayPanicCalls, strings.Fields(rest)...)
				case "nolock":
					c, err := mkClause(rest)
					if err != nil {
						return nil, err
					}
					cur.NoLock = append(cur.NoLock, c)
				case "refines":
					cur.Refines = append(cur.Refines, strings.Fields(rest)...)
				case "is":
					cur.Is = strings.TrimSpace(rest)
				case "params":
					cur.Params = strings.Fields(strings.ReplaceAll(rest, ",", " "))
				case "statement":
					c, err := mkClause(rest)
					if err != nil {
						return nil, err
					}
					cur.Ensures = append(cur.Ensures, c)
				case "requires":
					c, err := mkClause(rest)
					if err != nil {
						return nil, err
					}
					cur.Requires = append(cur.Requires, c)
				case "assumes":
					c, err := mkClause(rest)
					if err != nil {
						return nil, err
					}
					cur.Assumes = append(cur.Assumes, c)
				case "ensures":
					c, err := mkClause(rest)
					if err != nil {
						return nil, err
					}
					cur.Ensures = append(cur.Ensures, c)
				case "panics":
					c, err := mkClause(rest)
					if err != nil {
						return nil, err
					}
					cur.Panics = append(cur.Panics, c)
				case "modifies":
					cur.ModSet = true
					for _, it := range strings.Split(rest, ",") {
						it = strings.TrimSpace(it)
						if it != "" && it != "nothing" {
							cur.Modifies = append(cur.Modifies, it)
						}
					}
				case "loop":
					fs := strings.Fields(rest)
					if len(fs) < 3 {
						return nil, errf("loop <n> invariant|modifies ...")
					}
					n, err := strconv.Atoi(fs[0])
					if err != nil {
						return nil, errf("loop ordinal: %v", err)
					}
					ls := cur.Loops[n]
					if ls == nil {
						ls = &LoopSpec{}
						cur.Loops[n] = ls
					}
					body := strings.TrimSpace(strings.TrimPrefix(strings.TrimSpace(strings.TrimPrefix(rest, fs[0])), fs[1]))
					switch fs[1] {
					case "invariant":
						c, err := mkClause(body)
						if err != nil {
							return nil, err
						}
						ls.Inv = append(ls.Inv, c)
					case "modifies":
						for _, it := range strings.Split(body, ",") {
							ls.Modifies = append(ls.Modifies, strings.TrimSpace(it))
						}
					default:
						return nil, errf("loop clause %q", fs[1])
					}
				case "track":
					// track W = invoke zapcore.WriteSyncer.Write
					fs := strings.Fields(rest)
					if len(fs) != 4 || fs[1] != "=" {
						return nil, errf("track NAME = kind target")
					}
					cur.Tracks = append(cur.Tracks, Track{fs[0], fs[2], fs[3]})
				case "assert":
					// assert at call <n> of <callee> : expr
					j := strings.Index(rest, ":")
					if j < 0 {
						return nil, errf("assert at call n of f : expr")
					}
					fs := strings.Fields(rest[:j])
					if len(fs) != 5 || fs[0] != "at" || fs[1] != "call" || fs[3] != "of" {
						return nil, errf("assert at call n of f : expr")
					}
					n, err := strconv.Atoi(fs[2])
					if err != nil {
						return nil, errf("%v", err)
					}
					c, err := mkClause(strings.TrimSpace(rest[j+1:]))
					if err != nil {
						return nil, err
					}
					cur.Asserts = append(cur.Asserts, AssertAt{fs[4], n, c})
				}
			}
		}
	}
	return cs, nil
}

func (cs *Contracts) funcsForProp(prop string) []*Contract {
	var out []*Contract
	for _, k := range cs.Order {
		c := cs.ByID[k]
		if c.Kind != "func" && c.Kind != "lemma" {
			continue
		}
		for _, p := range c.Props {
			if p == prop {
				out = append(out, c)
			}
		}
	}
	sort.SliceStable(out, func(i, j int) bool { return out[i].ID < out[j].ID })
	return out
}

// splitTop splits on commas that are not inside parentheses.
func splitTop(s string) []string {
	var out []string
	depth, last := 0, 0
	for i, r := range s {
		switch r {
		case '(':
			depth++
		case ')':
			depth--
		case ',':
			if depth == 0 {
				out = append(out, s[last:i])
				last = i + 1
			}
		}
	}
	return append(out, s[last:])
}
