package main

import (
	"fmt"
	"go/constant"
	"go/types"
	"math/big"
	"sort"
	"strings"

	"golang.org/x/tools/go/ssa"
)

type Sort string

const (
	SBool  Sort = "Bool"
	SRef   Sort = "Ref"
	SBytes Sort = "Bytes"
	SSlice Sort = "Slice"
	SIface Sort = "Iface"
	SFn    Sort = "Fn"
	SBox   Sort = "Box"
	SMap   Sort = "Ref"
)

// Val is a symbolic value.
type Val struct {
	T     string
	S     Sort
	GT    types.Type
	Loc   *Loc     // address of a scalar cell (pseudo-pointer)
	Tuple []Val    // tuple value
	Lit   *big.Int // untyped integer literal
	Fn    *FnVal   // statically known function value

	// contract-evaluation only
	Addr     bool           // T is the address of a struct/array lvalue (dereferenced on demand)
	PkgRef   *types.Package // identifier naming a package
	Track    *trackInfo
	TrackArr bool
	TypeLit  types.Type
	ConstVal *big.Int // value of a typed integer constant (for folding bit operations in contracts)
}

type Loc struct {
	Comp string
	Ref  string
	T    types.Type // type of the cell content
}

type FnVal struct {
	Fn       *ssa.Function
	Bindings []Val // closure bindings
}

type Obligation struct {
	Name    string
	Kind    string
	Func    string
	PC      string
	Goal    string
	NFacts  int
	NDecls  int
	Descr   string
	Pos     string
	Verdict string // discharged / refuted / undecided
	Solver  string
	Ms      int64
	Model   string
	Output  string
	File    string
	Expect  string // "" normal (expect unsat); "sat" for vacuity covers
	Block   int    // block the obligation belongs to (-1: none; all facts are kept)
	Blocks  []int  // for merged obligations (loop back edges): all source blocks
}

// Ctx holds everything generated while verifying one function.
type Ctx struct {
	P   *Program
	CS  *Contracts
	fn  *ssa.Function
	con *Contract
	bv  bool

	decls    []string
	declared map[string]bool
	facts    []string
	factBlk  []int // block index where each fact was generated (-1: function-global)
	curBlk   int
	anc      map[int]map[int]bool // block -> set of blocks that can reach it (forward CFG), incl. itself
	obls     []*Obligation
	compSort map[string]Sort
	nfresh   int
	heapID   int
	epoch    int

	dtDone    map[string]bool
	strLits   map[string]string
	typeTags  map[string]int
	tagTypes  []types.Type
	ifaces    []types.Type
	boxDone   map[Sort]bool
	specDone  map[string]bool
	axiomDone map[string]bool
	globals   map[string]bool
	fnConsts  map[string]bool
	assumed   map[string]bool // extern/assumed contracts used
	axiomsUsed map[string]bool
	theoriesUsed map[string]bool
	unsupported []string
	oblNames  map[string]int
	tracks    map[string]*trackInfo
	immGlobals map[*ssa.Global]*Val
	gconstObjs []string
	entry     *Heap
	curPC     string
}

func newCtx(P *Program, CS *Contracts, fn *ssa.Function, con *Contract) *Ctx {
	c := &Ctx{P: P, CS: CS, fn: fn, con: con, declared: map[string]bool{}, compSort: map[string]Sort{},
		dtDone: map[string]bool{}, strLits: map[string]string{}, typeTags: map[string]int{}, boxDone: map[Sort]bool{},
		specDone: map[string]bool{}, axiomDone: map[string]bool{}, globals: map[string]bool{}, fnConsts: map[string]bool{},
		assumed: map[string]bool{}, axiomsUsed: map[string]bool{}, theoriesUsed: map[string]bool{}, oblNames: map[string]int{}, tracks: map[string]*trackInfo{}}
	c.bv = con != nil && con.Arith == "bv"
	c.curBlk = -1
	c.prelude()
	return c
}

func q(s string) string {
	// quote a symbol for SMT-LIB
	simple := true
	for _, r := range s {
		if !(r >= 'a' && r <= 'z' || r >= 'A' && r <= 'Z' || r >= '0' && r <= '9' || r == '_' || r == '!' || r == '$' || r == '.') {
			simple = false
			break
		}
	}
	if simple && s != "" && !(s[0] >= '0' && s[0] <= '9') {
		return s
	}
	s = strings.ReplaceAll(s, "|", "!")
	s = strings.ReplaceAll(s, "\\", "!")
	return "|" + s + "|"
}

func (c *Ctx) decl(key, text string) {
	if c.declared[key] {
		return
	}
	c.declared[key] = true
	c.decls = append(c.decls, text)
}

func (c *Ctx) intS() Sort {
	if c.bv {
		return "(_ BitVec 64)"
	}
	return "Int"
}

func (c *Ctx) prelude() {
	c.decl("sort:Ref", "(declare-sort Ref 0)")
	c.decl("sort:Bytes", "(declare-sort Bytes 0)")
	c.decl("sort:Fn", "(declare-sort Fn 0)")
	c.decl("sort:Box", "(declare-sort Box 0)")
	c.decl("nil", "(declare-const nil Ref)")
	c.decl("nilfn", "(declare-const nilfn Fn)")
	is := string(c.intS())
	c.decl("Slice", fmt.Sprintf("(declare-datatypes ((Slice 0)) (((mk_Slice (sl_arr Ref) (sl_off %s) (sl_len %s) (sl_cap %s)))))", is, is, is))
	c.decl("Iface", "(declare-datatypes ((Iface 0)) (((mk_Iface (if_tag Int) (if_val Box)))))")
	c.decl("nilbox", "(declare-const nilbox Box)")
	c.decl("elem", fmt.Sprintf("(declare-fun elem (Ref %s) Ref)", is))
	c.decl("elem_base", "(declare-fun elem_base (Ref) Ref)")
	c.decl("elem_idx", fmt.Sprintf("(declare-fun elem_idx (Ref) %s)", is))
	c.decl("elem_inj", fmt.Sprintf("(assert (forall ((r Ref) (i %s)) (! (and (= (elem_base (elem r i)) r) (= (elem_idx (elem r i)) i) (=> (not (= r nil)) (not (= (elem r i) nil)))) :pattern ((elem r i)))))", is))
	c.decl("sidx", fmt.Sprintf("(declare-fun sidx (Slice %s) Ref)", is))
	c.decl("sidx_def", fmt.Sprintf("(assert (forall ((s Slice) (i %s)) (! (= (sidx s i) (elem (sl_arr s) (%s (sl_off s) i))) :pattern ((sidx s i)))))", is, map[bool]string{true: "bvadd", false: "+"}[c.bv]))
	c.decl("root", "(declare-fun root (Ref) Ref)")
	c.decl("root_elem", fmt.Sprintf("(assert (forall ((r Ref) (i %s)) (! (=> (not (= r nil)) (= (root (elem r i)) (root r))) :pattern ((elem r i)))))", is))
	c.decl("root_nil", "(assert (= (root nil) nil))")
	c.decl("root_nonnil", "(assert (forall ((r Ref)) (! (=> (not (= r nil)) (not (= (root r) nil))) :pattern ((root r)))))")
	c.decl("blen", fmt.Sprintf("(declare-fun blen (Bytes) %s)", is))
	c.decl("bempty", "(declare-const bempty Bytes)")
	if c.bv {
		c.decl("blen0", "(assert (= (blen bempty) (_ bv0 64)))")
	} else {
		c.decl("blen0", "(assert (= (blen bempty) 0))")
		c.decl("blen_nonneg", "(assert (forall ((b Bytes)) (! (>= (blen b) 0) :pattern ((blen b)))))")
		c.decl("blen_empty", "(assert (forall ((b Bytes)) (! (=> (= (blen b) 0) (= b bempty)) :pattern ((blen b)))))")
		c.decl("tdiv", "(define-fun tdiv ((a Int) (b Int)) Int (ite (>= a 0) (ite (> b 0) (div a b) (- (div a (- b)))) (ite (> b 0) (- (div (- a) b)) (div (- a) (- b)))))")
		c.decl("tmod", "(define-fun tmod ((a Int) (b Int)) Int (- a (* b (tdiv a b))))")
	}
}

func (c *Ctx) fresh(prefix string, s Sort) string {
	c.nfresh++
	n := fmt.Sprintf("%s!%d", prefix, c.nfresh)
	n = q(n)
	c.decls = append(c.decls, fmt.Sprintf("(declare-const %s %s)", n, s))
	return n
}

func (c *Ctx) fact(f string) {
	if f == "" || f == "true" {
		return
	}
	c.facts = append(c.facts, f)
	c.factBlk = append(c.factBlk, c.curBlk)
}

// defFact records an unguarded definition of a fresh constant; it may be created lazily while
// another block is being executed, so it is never sliced away.
func (c *Ctx) defFact(f string) {
	c.facts = append(c.facts, f)
	c.factBlk = append(c.factBlk, -1)
}

func (c *Ctx) factUnder(pc, f string) {
	if f == "" || f == "true" {
		return
	}
	if pc == "" || pc == "true" {
		c.fact(f)
	} else {
		c.fact(fmt.Sprintf("(=> %s %s)", pc, f))
	}
}

func (c *Ctx) fnName() string {
	if c.fn == nil {
		return "lemma:" + c.con.ID
	}
	return shortID(c.fn.String())
}

func (c *Ctx) oblige(kind, name, pc, goal, descr, pos string) *Obligation {
	full := c.fnName() + "#" + name
	c.oblNames[full]++
	if n := c.oblNames[full]; n > 1 {
		full = fmt.Sprintf("%s~%d", full, n)
	}
	o := &Obligation{Block: c.curBlk, Name: full, Kind: kind, Func: c.fnName(), PC: pc, Goal: goal, NFacts: len(c.facts), NDecls: len(c.decls), Descr: descr, Pos: pos}
	c.obls = append(c.obls, o)
	return o
}

func and(xs ...string) string {
	var ys []string
	for _, x := range xs {
		if x == "" || x == "true" {
			continue
		}
		if x == "false" {
			return "false"
		}
		ys = append(ys, x)
	}
	if len(ys) == 0 {
		return "true"
	}
	if len(ys) == 1 {
		return ys[0]
	}
	return "(and " + strings.Join(ys, " ") + ")"
}

func or(xs ...string) string {
	var ys []string
	for _, x := range xs {
		if x == "" || x == "false" {
			continue
		}
		if x == "true" {
			return "true"
		}
		ys = append(ys, x)
	}
	if len(ys) == 0 {
		return "false"
	}
	if len(ys) == 1 {
		return ys[0]
	}
	return "(or " + strings.Join(ys, " ") + ")"
}

func not(x string) string {
	if x == "true" {
		return "false"
	}
	if x == "false" {
		return "true"
	}
	return "(not " + x + ")"
}

// ---------------------------------------------------------------- sorts

func isStruct(t types.Type) bool {
	_, ok := t.Underlying().(*types.Struct)
	return ok
}

func isArray(t types.Type) bool {
	_, ok := t.Underlying().(*types.Array)
	return ok
}

func intInfo(t types.Type) (bits int, signed bool, ok bool) {
	b, isb := t.Underlying().(*types.Basic)
	if !isb {
		return 0, false, false
	}
	switch b.Kind() {
	case types.Int8:
		return 8, true, true
	case types.Int16:
		return 16, true, true
	case types.Int32:
		return 32, true, true
	case types.Int64, types.Int:
		return 64, true, true
	case types.Uint8:
		return 8, false, true
	case types.Uint16:
		return 16, false, true
	case types.Uint32:
		return 32, false, true
	case types.Uint64, types.Uint, types.Uintptr:
		return 64, false, true
	case types.UntypedInt, types.UntypedRune:
		return 64, true, true
	}
	return 0, false, false
}

func pow2(n int) *big.Int { return new(big.Int).Lsh(big.NewInt(1), uint(n)) }

func (c *Ctx) sortOf(t types.Type) Sort {
	switch u := t.Underlying().(type) {
	case *types.Basic:
		if u.Info()&types.IsBoolean != 0 {
			return SBool
		}
		if bits, _, ok := intInfo(t); ok {
			if c.bv {
				return Sort(fmt.Sprintf("(_ BitVec %d)", bits))
			}
			return "Int"
		}
		if u.Info()&types.IsString != 0 {
			return SBytes
		}
		if u.Info()&types.IsFloat != 0 {
			c.decl("sort:Float", "(declare-sort Float 0)")
			return "Float"
		}
		if u.Info()&types.IsComplex != 0 {
			c.decl("sort:Complex", "(declare-sort Complex 0)")
			return "Complex"
		}
		if u.Kind() == types.UnsafePointer {
			return SRef
		}
		if u.Kind() == types.UntypedNil {
			return SRef
		}
	case *types.Pointer, *types.Chan, *types.Map:
		return SRef
	case *types.Slice:
		return SSlice
	case *types.Interface:
		return SIface
	case *types.Signature:
		return SFn
	case *types.Struct:
		return c.structSort(t)
	case *types.Array:
		// array values are opaque
		n := "Arr_" + sanitize(typeString(t))
		c.decl("sort:"+n, fmt.Sprintf("(declare-sort %s 0)", q(n)))
		if u.Len() == 0 {
			// a zero-length array type has a single value
			z := q("zero_" + sanitize(string(q(n))))
			c.decl("zero:zero_"+sanitize(string(q(n))), fmt.Sprintf("(declare-const %s %s)", z, q(n)))
			c.decl("unit:"+n, fmt.Sprintf("(assert (forall ((x!z %s)) (= x!z %s)))", q(n), z))
		}
		return Sort(q(n))
	case *types.Tuple:
		return "Tuple"
	}
	n := "Opaque_" + sanitize(typeString(t))
	c.decl("sort:"+n, fmt.Sprintf("(declare-sort %s 0)", q(n)))
	return Sort(q(n))
}

func sanitize(s string) string {
	var sb strings.Builder
	for _, r := range s {
		if r >= 'a' && r <= 'z' || r >= 'A' && r <= 'Z' || r >= '0' && r <= '9' || r == '_' || r == '.' {
			sb.WriteRune(r)
		} else {
			sb.WriteRune('_')
		}
	}
	return sb.String()
}

func structName(t types.Type) string {
	return sanitize(typeString(t))
}

func (c *Ctx) structSort(t types.Type) Sort {
	name := "S_" + structName(t)
	if len(name) > 120 {
		name = fmt.Sprintf("S_anon%d", hashStr(name))
	}
	if c.dtDone[name] {
		return Sort(name)
	}
	c.dtDone[name] = true
	st := t.Underlying().(*types.Struct)
	var fs []string
	for i := 0; i < st.NumFields(); i++ {
		f := st.Field(i)
		fs = append(fs, fmt.Sprintf("(%s %s)", c.selName(t, i), c.sortOf(f.Type())))
	}
	c.decls = append(c.decls, fmt.Sprintf("(declare-datatypes ((%s 0)) (((%s %s))))", name, "mk_"+name, strings.Join(fs, " ")))
	return Sort(name)
}

func hashStr(s string) uint32 {
	var h uint32 = 2166136261
	for i := 0; i < len(s); i++ {
		h ^= uint32(s[i])
		h *= 16777619
	}
	return h
}

func (c *Ctx) selName(t types.Type, i int) string {
	st := t.Underlying().(*types.Struct)
	name := "S_" + structName(t)
	if len(name) > 120 {
		name = fmt.Sprintf("S_anon%d", hashStr(name))
	}
	fname := st.Field(i).Name()
	if fname == "_" {
		fname = fmt.Sprintf("_blank%d", i)
	}
	return q(name + "." + fname)
}

// fieldComp names the heap component of a scalar struct field.
func (c *Ctx) fieldComp(t types.Type, i int) string {
	st := t.Underlying().(*types.Struct)
	f := st.Field(i)
	name := "H:" + structName(t) + "." + fieldName(st, i)
	if _, ok := c.compSort[name]; !ok {
		c.compSort[name] = Sort(fmt.Sprintf("(Array Ref %s)", c.sortOf(f.Type())))
	}
	return name
}

// subRef is the address of a struct-typed (or array-typed) field.
func (c *Ctx) subRef(t types.Type, i int, base string) string {
	st := t.Underlying().(*types.Struct)
	fn := q("fld:" + structName(t) + "." + fieldName(st, i))
	inv := q("fldinv:" + structName(t) + "." + fieldName(st, i))
	c.decl("fn:"+fn, fmt.Sprintf("(declare-fun %s (Ref) Ref)", fn))
	c.decl("fn:"+inv, fmt.Sprintf("(declare-fun %s (Ref) Ref)", inv))
	c.decl("ax:"+fn, fmt.Sprintf("(assert (forall ((r Ref)) (! (and (= (%s (%s r)) r) (=> (not (= r nil)) (and (not (= (%s r) nil)) (= (root (%s r)) (root r))))) :pattern ((%s r)))))", inv, fn, fn, fn, fn))
	return fmt.Sprintf("(%s %s)", fn, base)
}

func fieldName(st *types.Struct, i int) string {
	n := st.Field(i).Name()
	if n == "_" {
		return fmt.Sprintf("_blank%d", i)
	}
	return n
}

func (c *Ctx) cellComp(t types.Type) string {
	name := "C:" + sanitize(typeString(t))
	if _, ok := c.compSort[name]; !ok {
		c.compSort[name] = Sort(fmt.Sprintf("(Array Ref %s)", c.sortOf(t)))
	}
	return name
}

func (c *Ctx) elemComp(t types.Type) string {
	name := "E:" + sanitize(typeString(t))
	if _, ok := c.compSort[name]; !ok {
		c.compSort[name] = Sort(fmt.Sprintf("(Array Ref %s)", c.sortOf(t)))
	}
	return name
}

// ---------------------------------------------------------------- integers

func (c *Ctx) intLit(v *big.Int, t types.Type) string {
	bits, _, ok := intInfo(t)
	if !ok {
		bits = 64
	}
	return c.intLitBits(v, bits)
}

func (c *Ctx) intLitBits(v *big.Int, bits int) string {
	if c.bv {
		m := new(big.Int).Mod(v, pow2(bits))
		return fmt.Sprintf("(_ bv%s %d)", m.String(), bits)
	}
	if v.Sign() < 0 {
		return fmt.Sprintf("(- %s)", new(big.Int).Neg(v).String())
	}
	return v.String()
}

func (c *Ctx) idx(n int64) string { return c.intLitBits(big.NewInt(n), 64) }

func intRange(t types.Type) (lo, hi *big.Int) {
	bits, signed, _ := intInfo(t)
	if signed {
		return new(big.Int).Neg(pow2(bits - 1)), new(big.Int).Sub(pow2(bits-1), big.NewInt(1))
	}
	return big.NewInt(0), new(big.Int).Sub(pow2(bits), big.NewInt(1))
}

func bigS(v *big.Int) string {
	if v.Sign() < 0 {
		return fmt.Sprintf("(- %s)", new(big.Int).Neg(v).String())
	}
	return v.String()
}

// rangeFact gives the well-typedness constraint of a term of Go type t.
func (c *Ctx) rangeFact(term string, t types.Type, depth int) string {
	if t == nil || depth > 3 {
		return "true"
	}
	switch u := t.Underlying().(type) {
	case *types.Basic:
		if _, _, ok := intInfo(t); ok && !c.bv {
			lo, hi := intRange(t)
			return fmt.Sprintf("(and (<= %s %s) (<= %s %s))", bigS(lo), term, term, bigS(hi))
		}
		if u.Info()&types.IsString != 0 {
			if c.bv {
				return fmt.Sprintf("(and (bvsle (_ bv0 64) (blen %s)) (bvslt (blen %s) (_ bv4611686018427387904 64)))", term, term)
			}
			return fmt.Sprintf("(and (<= 0 (blen %s)) (<= (blen %s) 4611686018427387904))", term, term)
		}
	case *types.Slice:
		if !c.bv {
			if eb, ok := u.Elem().Underlying().(*types.Basic); !ok || (eb.Kind() != types.Uint8 && eb.Kind() != types.Int8 && eb.Kind() != types.Bool) {
				// elements of two or more bytes: fewer than 2^60 of them fit any address space
				return fmt.Sprintf("(and (<= 0 (sl_off %s)) (<= 0 (sl_len %s)) (<= (sl_len %s) (sl_cap %s)) (<= (sl_cap %s) 1152921504606846976) (=> (= (sl_arr %s) nil) (= (sl_cap %s) 0)))", term, term, term, term, term, term, term)
			}
		}
		if c.bv {
			return fmt.Sprintf("(and (bvsle (_ bv0 64) (sl_off %s)) (bvsle (_ bv0 64) (sl_len %s)) (bvsle (sl_len %s) (sl_cap %s)) (bvslt (sl_cap %s) (_ bv4611686018427387904 64)) (bvslt (sl_off %s) (_ bv4611686018427387904 64)) (=> (= (sl_arr %s) nil) (= (sl_cap %s) (_ bv0 64))))", term, term, term, term, term, term, term, term)
		}
		return fmt.Sprintf("(and (<= 0 (sl_off %s)) (<= 0 (sl_len %s)) (<= (sl_len %s) (sl_cap %s)) (<= (sl_cap %s) 4611686018427387904) (=> (= (sl_arr %s) nil) (= (sl_cap %s) 0)))", term, term, term, term, term, term, term)
	case *types.Interface:
		f := fmt.Sprintf("(=> (= (if_tag %s) 0) (= %s (mk_Iface 0 nilbox)))", term, term)
		if _, named := t.(*types.Named); named && u.NumMethods() > 0 {
			f = fmt.Sprintf("(and %s (or (= (if_tag %s) 0) (%s (if_tag %s))))", f, term, c.implementsPred(t), term)
		}
		return f
	case *types.Struct:
		var fs []string
		for i := 0; i < u.NumFields(); i++ {
			f := c.rangeFact(fmt.Sprintf("(%s %s)", c.selName(t, i), term), u.Field(i).Type(), depth+1)
			if f != "true" {
				fs = append(fs, f)
			}
		}
		return and(fs...)
	}
	return "true"
}

func (c *Ctx) zero(t types.Type) string {
	switch u := t.Underlying().(type) {
	case *types.Basic:
		if u.Info()&types.IsBoolean != 0 {
			return "false"
		}
		if _, _, ok := intInfo(t); ok {
			return c.intLit(big.NewInt(0), t)
		}
		if u.Info()&types.IsString != 0 {
			return "bempty"
		}
		if u.Info()&types.IsFloat != 0 {
			c.sortOf(t)
			c.decl("fzero", "(declare-const fzero Float)")
			return "fzero"
		}
		if u.Info()&types.IsComplex != 0 {
			c.sortOf(t)
			c.decl("czero", "(declare-const czero Complex)")
			return "czero"
		}
		return "nil"
	case *types.Pointer, *types.Chan, *types.Map:
		return "nil"
	case *types.Slice:
		return fmt.Sprintf("(mk_Slice nil %s %s %s)", c.idx(0), c.idx(0), c.idx(0))
	case *types.Interface:
		return "(mk_Iface 0 nilbox)"
	case *types.Signature:
		return "nilfn"
	case *types.Struct:
		s := c.structSort(t)
		if u.NumFields() == 0 {
			return "mk_" + string(s)
		}
		var fs []string
		for i := 0; i < u.NumFields(); i++ {
			fs = append(fs, c.zero(u.Field(i).Type()))
		}
		return fmt.Sprintf("(mk_%s %s)", s, strings.Join(fs, " "))
	}
	s := c.sortOf(t)
	n := "zero_" + sanitize(string(s))
	c.decl("zero:"+n, fmt.Sprintf("(declare-const %s %s)", q(n), s))
	return q(n)
}

// strLit returns the constant for a string literal, with its length and bytes.
func (c *Ctx) strLit(s string) string {
	if s == "" {
		return "bempty"
	}
	if n, ok := c.strLits[s]; ok {
		return n
	}
	n := q(fmt.Sprintf("str!%d!%s", len(c.strLits), sanitize(truncate(s, 24))))
	c.strLits[s] = n
	c.decls = append(c.decls, fmt.Sprintf("(declare-const %s Bytes)", n))
	c.decls = append(c.decls, fmt.Sprintf("(assert (= (blen %s) %s))", n, c.idx(int64(len(s)))))
	// distinctness from other literals
	var others []string
	for o := range c.strLits {
		if o != s {
			others = append(others, o)
		}
	}
	sort.Strings(others)
	for _, o := range others {
		c.decls = append(c.decls, fmt.Sprintf("(assert (not (= %s %s)))", n, c.strLits[o]))
	}
	if c.declared["bat"] {
		c.strLitBytes(s, n)
	}
	if c.declared["bcat"] {
		c.strLitUnits(s, n)
	}
	return n
}

// strLitUnits: a short literal is the concatenation of its bytes (ground instance of T-Bytes).
func (c *Ctx) strLitUnits(s, n string) {
	if len(s) == 0 || len(s) > 16 || c.bv {
		return
	}
	t := fmt.Sprintf("(bunit %d)", s[len(s)-1])
	for i := len(s) - 2; i >= 0; i-- {
		t = fmt.Sprintf("(bcat (bunit %d) %s)", s[i], t)
	}
	c.decls = append(c.decls, fmt.Sprintf("(assert (= %s %s))", n, t))
}

func (c *Ctx) strLitBytes(s, n string) {
	if len(s) > 64 {
		return
	}
	for i := 0; i < len(s); i++ {
		c.decls = append(c.decls, fmt.Sprintf("(assert (= (bat %s %s) %s))", n, c.idx(int64(i)), c.intLitBits(big.NewInt(int64(s[i])), 8)))
	}
}

func truncate(s string, n int) string {
	if len(s) > n {
		return s[:n]
	}
	return s
}

// needBat declares the byte-at function of T-Bytes (lazily).
func (c *Ctx) needBat() {
	if c.declared["bat"] {
		return
	}
	b8 := "Int"
	if c.bv {
		b8 = "(_ BitVec 8)"
	}
	c.decl("bat", fmt.Sprintf("(declare-fun bat (Bytes %s) %s)", c.intS(), b8))
	if !c.bv {
		c.decl("bat_range", "(assert (forall ((b Bytes) (i Int)) (! (and (<= 0 (bat b i)) (<= (bat b i) 255)) :pattern ((bat b i)))))")
	}
	var ks []string
	for s := range c.strLits {
		ks = append(ks, s)
	}
	sort.Strings(ks)
	for _, s := range ks {
		c.strLitBytes(s, c.strLits[s])
	}
}

// constVal converts an ssa.Const.
func (c *Ctx) constVal(k *ssa.Const) Val {
	t := k.Type()
	if k.Value == nil {
		return Val{T: c.zero(t), S: c.sortOf(t), GT: t}
	}
	switch k.Value.Kind() {
	case constant.Bool:
		if constant.BoolVal(k.Value) {
			return Val{T: "true", S: SBool, GT: t}
		}
		return Val{T: "false", S: SBool, GT: t}
	case constant.Int:
		if _, _, ok := intInfo(t); ok {
			v, _ := new(big.Int).SetString(k.Value.ExactString(), 10)
			return Val{T: c.intLit(v, t), S: c.sortOf(t), GT: t}
		}
		// int constant of float type etc.
		return c.opaqueConst(k)
	case constant.String:
		return Val{T: c.strLit(constant.StringVal(k.Value)), S: SBytes, GT: t}
	}
	return c.opaqueConst(k)
}

func (c *Ctx) opaqueConst(k *ssa.Const) Val {
	t := k.Type()
	s := c.sortOf(t)
	n := q("const:" + sanitize(typeString(t)) + ":" + sanitize(k.Value.ExactString()))
	c.decl("const:"+n, fmt.Sprintf("(declare-const %s %s)", n, s))
	return Val{T: n, S: s, GT: t}
}

// ---------------------------------------------------------------- type tags

func (c *Ctx) typeTag(t types.Type) int {
	k := typeString(t)
	if n, ok := c.typeTags[k]; ok {
		return n
	}
	n := len(c.typeTags) + 1
	c.typeTags[k] = n
	c.tagTypes = append(c.tagTypes, t)
	for _, it := range c.ifaces {
		c.implFact(t, n, it)
	}
	c.decl("comparable", "(declare-fun comparable (Int) Bool)")
	if types.Comparable(t) {
		c.decls = append(c.decls, fmt.Sprintf("(assert (comparable %d))", n))
	} else {
		c.decls = append(c.decls, fmt.Sprintf("(assert (not (comparable %d)))", n))
	}
	return n
}

// comparableCond: condition under which a == b does not panic (Go spec: comparing interface
// values with identical, non-comparable dynamic types panics; likewise inside structs).
func (c *Ctx) comparableCond(t types.Type, a, b string) string {
	switch u := t.Underlying().(type) {
	case *types.Interface:
		c.decl("comparable", "(declare-fun comparable (Int) Bool)")
		return fmt.Sprintf("(=> (and (= (if_tag %s) (if_tag %s)) (not (= (if_tag %s) 0))) (comparable (if_tag %s)))", a, b, a, a)
	case *types.Struct:
		var cs []string
		for i := 0; i < u.NumFields(); i++ {
			sel := c.selName(t, i)
			cs = append(cs, c.comparableCond(u.Field(i).Type(), fmt.Sprintf("(%s %s)", sel, a), fmt.Sprintf("(%s %s)", sel, b)))
		}
		return and(cs...)
	}
	return "true"
}

func (c *Ctx) implFact(t types.Type, tag int, iface types.Type) {
	n := q("implements:" + typeString(iface))
	it, ok := iface.Underlying().(*types.Interface)
	if !ok {
		return
	}
	if types.Implements(t, it) {
		c.decls = append(c.decls, fmt.Sprintf("(assert (%s %d))", n, tag))
	} else {
		c.decls = append(c.decls, fmt.Sprintf("(assert (not (%s %d)))", n, tag))
	}
}

func (c *Ctx) box(v Val) string {
	s := v.S
	bn := q("box:" + string(s))
	un := q("unbox:" + string(s))
	if !c.boxDone[s] {
		c.boxDone[s] = true
		c.decls = append(c.decls, fmt.Sprintf("(declare-fun %s (%s) Box)", bn, s))
		c.decls = append(c.decls, fmt.Sprintf("(declare-fun %s (Box) %s)", un, s))
		c.decls = append(c.decls, fmt.Sprintf("(assert (forall ((x %s)) (! (= (%s (%s x)) x) :pattern ((%s x)))))", s, un, bn, bn))
	}
	return fmt.Sprintf("(%s %s)", bn, v.T)
}

func (c *Ctx) unbox(b string, s Sort) string {
	c.box(Val{T: "", S: s}) // ensure declared
	un := q("unbox:" + string(s))
	// peephole: unbox(if_val(mk_Iface k (box t))) = t
	if strings.HasPrefix(b, "(if_val (mk_Iface ") && strings.HasSuffix(b, ")))") {
		inner := b[len("(if_val (mk_Iface "):]
		if sp := strings.Index(inner, " "); sp > 0 {
			rest := inner[sp+1:]
			bx := "(" + q("box:"+string(s)) + " "
			if strings.HasPrefix(rest, bx) {
				t := rest[len(bx) : len(rest)-3]
				if balanced(t) {
					return t
				}
			}
		}
	}
	return fmt.Sprintf("(%s %s)", un, b)
}

// implements(tag, iface) predicate
func (c *Ctx) implementsPred(iface types.Type) string {
	n := q("implements:" + typeString(iface))
	c.decl("impl:"+n, fmt.Sprintf("(declare-fun %s (Int) Bool)", n))
	if !c.declared["impl0:"+n] {
		c.decl("impl0:"+n, fmt.Sprintf("(assert (not (%s 0)))", n))
		c.ifaces = append(c.ifaces, iface)
		for i, t := range c.tagTypes {
			c.implFact(t, i+1, iface)
		}
	}
	return n
}


func balanced(t string) bool {
	d := 0
	for _, r := range t {
		if r == '(' {
			d++
		} else if r == ')' {
			d--
			if d < 0 {
				return false
			}
		}
	}
	return d == 0
}
