package main

// Theory proofs: an axiom of a background theory marked "proved-axiom" (or "proof-lemma") is not
// trusted: it is discharged here from the theory text that PRECEDES it (so there is no circularity),
// either directly or by structural induction over byte strings (empty / snoc) or over naturals.
// What remains assumed is listed in the evidence as "definition" (def-axiom, proof-def: recursive
// definitions of the uninterpreted symbols over snoc-lists / naturals), the T-Bytes sequence laws,
// and the induction principles themselves.

import (
	"fmt"
	"go/types"
	"strings"

	"golang.org/x/tools/go/ssa"
)

type sx struct {
	atom string
	list []*sx
}

func parseSx(s string) (*sx, error) {
	pos := 0
	var parse func() (*sx, error)
	skip := func() {
		for pos < len(s) && (s[pos] == ' ' || s[pos] == '\t' || s[pos] == '\n') {
			pos++
		}
	}
	parse = func() (*sx, error) {
		skip()
		if pos >= len(s) {
			return nil, fmt.Errorf("unexpected end")
		}
		if s[pos] == '(' {
			pos++
			n := &sx{}
			for {
				skip()
				if pos >= len(s) {
					return nil, fmt.Errorf("missing )")
				}
				if s[pos] == ')' {
					pos++
					if n.list == nil {
						n.list = []*sx{}
					}
					return n, nil
				}
				c, err := parse()
				if err != nil {
					return nil, err
				}
				n.list = append(n.list, c)
			}
		}
		st := pos
		if s[pos] == '|' {
			pos++
			for pos < len(s) && s[pos] != '|' {
				pos++
			}
			pos++
		} else {
			for pos < len(s) && !strings.ContainsRune(" \t\n()", rune(s[pos])) {
				pos++
			}
		}
		return &sx{atom: s[st:pos]}, nil
	}
	x, err := parse()
	if err != nil {
		return nil, err
	}
	skip()
	if pos != len(s) {
		return nil, fmt.Errorf("trailing text %q", s[pos:])
	}
	return x, nil
}

func (x *sx) String() string {
	if x.list == nil {
		return x.atom
	}
	var ps []string
	for _, c := range x.list {
		ps = append(ps, c.String())
	}
	return "(" + strings.Join(ps, " ") + ")"
}

func (x *sx) isList(head string) bool {
	return x.list != nil && len(x.list) > 0 && x.list[0].list == nil && x.list[0].atom == head
}

// substSx replaces free occurrences of variable v by term by.
func substSx(x *sx, v string, by *sx) *sx {
	if x.list == nil {
		if x.atom == v {
			return by
		}
		return x
	}
	if (x.isList("forall") || x.isList("exists")) && len(x.list) == 3 {
		for _, b := range x.list[1].list {
			if len(b.list) == 2 && b.list[0].atom == v {
				return x // shadowed
			}
		}
	}
	if x.isList("let") && len(x.list) == 3 {
		shadow := false
		nb := &sx{list: []*sx{}}
		for _, b := range x.list[1].list {
			if len(b.list) == 2 {
				nb.list = append(nb.list, &sx{list: []*sx{b.list[0], substSx(b.list[1], v, by)}})
				if b.list[0].atom == v {
					shadow = true
				}
			}
		}
		body := x.list[2]
		if !shadow {
			body = substSx(body, v, by)
		}
		return &sx{list: []*sx{x.list[0], nb, body}}
	}
	n := &sx{list: make([]*sx, len(x.list))}
	for i, c := range x.list {
		n.list[i] = substSx(c, v, by)
	}
	return n
}

// splitAxiom takes "(assert (forall (binders) body))" and returns binders and body; a ground axiom has no binders.
func splitAxiom(text string) (binders []*sx, body *sx, err error) {
	x, err := parseSx(text)
	if err != nil {
		return nil, nil, err
	}
	if !x.isList("assert") || len(x.list) != 2 {
		return nil, nil, fmt.Errorf("expected (assert ...)")
	}
	f := x.list[1]
	if f.isList("forall") && len(f.list) == 3 {
		return f.list[1].list, f.list[2], nil
	}
	return nil, f, nil
}

func quantify(binders []*sx, body *sx) *sx {
	if len(binders) == 0 {
		// drop a pattern annotation that has nothing to bind
		if body.isList("!") && len(body.list) >= 2 {
			return body.list[1]
		}
		return body
	}
	return &sx{list: []*sx{{atom: "forall"}, {list: binders}, body}}
}

// verifyTheory builds the proof obligations of the proved axioms of th.
func verifyTheory(P *Program, CS *Contracts, th *Theory) (c *Ctx, err error) {
	con := &Contract{Kind: "lemma", ID: "theory:" + th.Name, Flags: map[string]bool{}, File: th.File}
	c = newCtx(P, CS, nil, con)
	defer func() {
		if r := recover(); r != nil {
			if u, ok := r.(unsupportedErr); ok {
				err = fmt.Errorf("unsupported: %s", string(u))
				return
			}
			panic(r)
		}
	}()
	c.compSort["$alloc"] = "(Array Ref Bool)"
	c.compSort["$clk"] = c.intS()
	h := c.newBase()
	c.entry = h
	c.needBytesTheory()
	c.declared["theory:"+th.Name] = true
	c.decls = append(c.decls, "(declare-const ind!c Bytes)", "(declare-const ind!x Int)", "(declare-const ind!n Int)")
	pos := strings.TrimPrefix(th.File, "/verif/")
	for _, it := range th.Items {
		switch it.Kind {
		case "proved", "proof-lemma":
			binders, body, e := splitAxiom(it.Text)
			if e != nil {
				panic(unsupportedErr(fmt.Sprintf("theory %s, axiom %s: %v", th.Name, it.Name, e)))
			}
			pred := func(v string, t *sx) *sx {
				var rest []*sx
				for _, b := range binders {
					if !(len(b.list) == 2 && b.list[0].atom == v) {
						rest = append(rest, b)
					}
				}
				return quantify(rest, substSx(body, v, t))
			}
			has := func(v, sort string) bool {
				for _, b := range binders {
					if len(b.list) == 2 && b.list[0].atom == v && b.list[1].String() == sort {
						return true
					}
				}
				return false
			}
			switch {
			case it.Induct == "":
				c.oblige("theory", fmt.Sprintf("%s.%s", th.Name, it.Name), "true", quantify(binders, body).String(), "axiom "+it.Name+" follows from the theory text before it", pos)
			case strings.HasPrefix(it.Induct, "induct "):
				v := strings.TrimSpace(strings.TrimPrefix(it.Induct, "induct "))
				if !has(v, "Bytes") {
					panic(unsupportedErr(fmt.Sprintf("theory %s, axiom %s: induct %s: no such Bytes variable", th.Name, it.Name, v)))
				}
				base := pred(v, &sx{atom: "bempty"})
				ih := pred(v, &sx{atom: "ind!c"})
				snoc, _ := parseSx("(bcat ind!c (bunit ind!x))")
				step := pred(v, snoc)
				c.oblige("theory", fmt.Sprintf("%s.%s.base", th.Name, it.Name), "true", base.String(), "induction on "+v+" (byte strings: empty / snoc), base case of axiom "+it.Name, pos)
				c.oblige("theory", fmt.Sprintf("%s.%s.step", th.Name, it.Name), "true", fmt.Sprintf("(=> (and (<= 0 ind!x) (<= ind!x 255) %s) %s)", ih, step), "induction on "+v+", step case of axiom "+it.Name+" (hypothesis for c, goal for c ++ [x])", pos)
			case strings.HasPrefix(it.Induct, "natinduct "):
				v := strings.TrimSpace(strings.TrimPrefix(it.Induct, "natinduct "))
				if !has(v, "Int") {
					panic(unsupportedErr(fmt.Sprintf("theory %s, axiom %s: natinduct %s: no such Int variable", th.Name, it.Name, v)))
				}
				base := pred(v, &sx{atom: "0"})
				ih := pred(v, &sx{atom: "ind!n"})
				succ, _ := parseSx("(+ ind!n 1)")
				step := pred(v, succ)
				c.oblige("theory", fmt.Sprintf("%s.%s.base", th.Name, it.Name), "true", base.String(), "induction on "+v+" (naturals), base case of axiom "+it.Name, pos)
				c.oblige("theory", fmt.Sprintf("%s.%s.step", th.Name, it.Name), "true", fmt.Sprintf("(=> (and (>= ind!n 0) %s) %s)", ih, step), "induction on "+v+", step case of axiom "+it.Name, pos)
				c.oblige("theory", fmt.Sprintf("%s.%s.neg", th.Name, it.Name), "true", fmt.Sprintf("(=> (< ind!n 0) %s)", ih), "axiom "+it.Name+" for negative "+v+" (must hold without induction)", pos)
			default:
				panic(unsupportedErr(fmt.Sprintf("theory %s, axiom %s: unknown proof method %q", th.Name, it.Name, it.Induct)))
			}
			c.decls = append(c.decls, it.Text)
		case "canary":
			binders, body, e := splitAxiom(it.Text)
			if e != nil {
				panic(unsupportedErr(fmt.Sprintf("theory %s, canary %s: %v", th.Name, it.Name, e)))
			}
			o := c.oblige("vacuity", fmt.Sprintf("%s.canary.%s", th.Name, it.Name), "true", quantify(binders, body).String(), "a false statement must NOT follow from the theory text before it (unsat = the theory proves falsehoods)", pos)
			o.Expect = "consistent"
		default:
			c.decls = append(c.decls, it.Text)
		}
	}
	// vacuity guard: the whole theory text (definitions, proof-only definitions and all axioms) must not be contradictory
	o := c.oblige("vacuity", th.Name+".consistent", "true", "false", "the theory text (definitions and axioms) is not contradictory (unsat = every proof above is vacuous)", pos)
	o.Expect = "consistent"
	return c, nil
}

// verifyAxioms: contract-level axioms (axiom name <method>: expr) that carry a proof method are discharged
// from the axioms declared before them. used: the axioms some verification condition of this run used.
func verifyAxioms(P *Program, CS *Contracts, used map[string]bool) (c *Ctx, n int, err error) {
	con := &Contract{Kind: "lemma", ID: "axioms:proved", Flags: map[string]bool{}}
	c = newCtx(P, CS, nil, con)
	defer func() {
		if r := recover(); r != nil {
			if u, ok := r.(unsupportedErr); ok {
				err = fmt.Errorf("unsupported: %s", string(u))
				return
			}
			panic(r)
		}
	}()
	c.compSort["$alloc"] = "(Array Ref Bool)"
	c.compSort["$clk"] = c.intS()
	h := c.newBase()
	c.entry = h
	e := &Exec{c: c, con: con, env: map[ssa.Value]Val{}, params: map[string]Val{}, names: map[string]Val{}}
	var pkg *types.Package
	for _, p := range P.Prog.AllPackages() {
		if p.Pkg.Path() == zapMod+"/zapcore" {
			pkg = p.Pkg
		}
	}
	for _, ax := range CS.Axioms {
		c.axiomDone[ax.Name] = true // no automatic assertion: axioms are added below, in declaration order
	}
	c.decls = append(c.decls, "(declare-const ind!n Int)")
	for _, ax := range CS.Axioms {
		if !used[ax.Name] {
			continue
		}
		sc := &Scope{e: e, c: c, cur: h, old: h, params: map[string]Val{}, names: map[string]Val{}, pkg: pkg, tracks: map[string]*trackInfo{}, where: "axiom " + ax.Name}
		v := sc.rvalue(sc.eval(ax.C.E))
		if ax.Proof != "" {
			n++
			x, perr := parseSx(v.T)
			if perr != nil {
				panic(unsupportedErr(fmt.Sprintf("axiom %s: %v", ax.Name, perr)))
			}
			var binders []*sx
			body := x
			if x.isList("forall") && len(x.list) == 3 {
				binders, body = x.list[1].list, x.list[2]
			}
			pos := ax.C.Src
			switch {
			case ax.Proof == "direct":
				c.oblige("theory", "axiom."+ax.Name, "true", v.T, "axiom "+ax.Name+" follows from the axioms declared before it", pos)
			case strings.HasPrefix(ax.Proof, "natinduct "):
				vn := "q!" + strings.TrimSpace(strings.TrimPrefix(ax.Proof, "natinduct "))
				pred := func(t *sx) *sx {
					var rest []*sx
					found := false
					for _, b := range binders {
						if len(b.list) == 2 && b.list[0].atom == vn {
							found = true
							continue
						}
						rest = append(rest, b)
					}
					if !found {
						panic(unsupportedErr(fmt.Sprintf("axiom %s: no bound variable %s", ax.Name, vn)))
					}
					return quantify(rest, substSx(body, vn, t))
				}
				succ, _ := parseSx("(+ ind!n 1)")
				c.oblige("theory", "axiom."+ax.Name+".base", "true", pred(&sx{atom: "0"}).String(), "induction over the naturals, base case of axiom "+ax.Name, pos)
				c.oblige("theory", "axiom."+ax.Name+".step", "true", fmt.Sprintf("(=> (and (>= ind!n 0) %s) %s)", pred(&sx{atom: "ind!n"}), pred(succ)), "induction, step case of axiom "+ax.Name, pos)
				c.oblige("theory", "axiom."+ax.Name+".neg", "true", fmt.Sprintf("(=> (< ind!n 0) %s)", pred(&sx{atom: "ind!n"})), "axiom "+ax.Name+" below zero (must hold without induction)", pos)
			default:
				panic(unsupportedErr(fmt.Sprintf("axiom %s: unknown proof method %q", ax.Name, ax.Proof)))
			}
		}
		c.decls = append(c.decls, fmt.Sprintf("(assert %s)", v.T))
	}
	return c, n, nil
}
