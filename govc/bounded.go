package main

import (
	"fmt"
	"os"
	"path/filepath"
	"regexp"
	"strings"
)

// Bounded stand-ins (DESIGN.md 2.6): a real function that is outside the executor's subset is checked
// by exhaustive/sampled execution up to a stated bound. Labelled "bounded" in the evidence, never
// counted among the discharged obligations, never a proof.

type boundedResult struct {
	Function string `json:"function"`
	Bound    string `json:"bound"`
	Cases    int    `json:"cases"`
	Passed   bool   `json:"passed"`
	Output   string `json:"output,omitempty"`
	TestFile string `json:"test_file,omitempty"`
}

var anyCaseRe = regexp.MustCompile(`(?m)^\tcase (.+):\n\t\tc = anyFieldC\[(.+)\]\((\w+)\)$`)

// boundedAny: zap.Any against the typed constructors, for every case of its type switch (the case
// list is read from the source on every run, so a case added or changed is picked up).
func boundedAny(root, repo string) *boundedResult {
	src, err := os.ReadFile(filepath.Join(repo, "field.go"))
	if err != nil {
		return &boundedResult{Function: "zap.Any", Passed: false, Output: err.Error()}
	}
	ms := anyCaseRe.FindAllStringSubmatch(string(src), -1)
	res := &boundedResult{Function: "zap.Any", Cases: len(ms),
		Bound: "every case of Any's type switch as enumerated from field.go on this run; per case the zero value and 40 pseudo-random values of the case type (testing/quick, fixed seed 1); interface-typed cases with one implementing sample; one value of a type outside the list (reflection fallback); Any(k,v) compared with Ctor(k,v) by reflect.DeepEqual"}
	if len(ms) < 60 {
		res.Output = fmt.Sprintf("only %d cases recognised in zap.Any - the case list could not be enumerated", len(ms))
		return res
	}
	var b strings.Builder
	b.WriteString(`package zap

import (
	"errors"
	"fmt"
	"math/rand"
	"reflect"
	"testing"
	"testing/quick"
	"time"

	"go.uber.org/zap/zapcore"
)

type boundedOM struct{ X int }

func (boundedOM) MarshalLogObject(zapcore.ObjectEncoder) error { return nil }

type boundedAM struct{ X int }

func (boundedAM) MarshalLogArray(zapcore.ArrayEncoder) error { return nil }

type boundedStr struct{ X int }

func (boundedStr) String() string { return "s" }

type boundedOther struct{ X int }

// implements error and fmt.Stringer: the error case comes first
type boundedBoth struct{ X int }

func (boundedBoth) Error() string  { return "e" }
func (boundedBoth) String() string { return "s" }

// implements ObjectMarshaler and error: the marshaler case comes first
type boundedOMErr struct{ X int }

func (boundedOMErr) MarshalLogObject(zapcore.ObjectEncoder) error { return nil }
func (boundedOMErr) Error() string                                { return "e" }

var _ = time.Now
var _ = fmt.Sprint

func boundedSamples[T any](rnd *rand.Rand) []T {
	var zero T
	out := []T{zero}
	rt := reflect.TypeOf((*T)(nil)).Elem()
	if rt.Kind() == reflect.Interface {
		return nil
	}
	for i := 0; i < 40; i++ {
		func() {
			defer func() { recover() }() // quick cannot build types with unexported fields (time.Time, Field)
			if v, ok := quick.Value(rt, rnd); ok {
				out = append(out, v.Interface().(T))
			}
		}()
	}
	switch any(zero).(type) {
	case time.Time:
		for _, u := range []time.Time{time.Unix(0, 0), time.Unix(1700000000, 5).UTC(), time.Date(3000, 1, 1, 0, 0, 0, 0, time.FixedZone("x", 3600)), time.Date(1, 1, 1, 0, 0, 0, 0, time.UTC)} {
			out = append(out, any(u).(T))
		}
	case []time.Time:
		out = append(out, any([]time.Time{time.Unix(1, 2), {}}).(T))
	case []Field:
		out = append(out, any([]Field{Int("a", 1), String("b", "c")}).(T))
	}
	return out
}

func boundedCheck[T any](t *testing.T, name string, ctor func(string, T) Field, vs []T) {
	for _, v := range vs {
		got, want := Any("k", v), ctor("k", v)
		if !reflect.DeepEqual(got, want) {
			t.Errorf("BOUNDED-VIOLATION Any(k, %T(%v)) = %+v, but %s gives %+v", v, v, got, name, want)
			return
		}
	}
}

func TestBoundedVerifAny(t *testing.T) {
	rnd := rand.New(rand.NewSource(1))
	sampleErr := errors.New("e")
`)
	for _, m := range ms {
		caseT, instT, ctor := m[1], m[2], m[3]
		if caseT != instT {
			fmt.Fprintf(&b, "\tt.Errorf(\"BOUNDED-VIOLATION case %s instantiates anyFieldC[%s]\")\n", caseT, instT)
			continue
		}
		switch caseT {
		case "zapcore.ObjectMarshaler":
			fmt.Fprintf(&b, "\tboundedCheck[%s](t, %q, %s, []%s{boundedOM{1}, &boundedOM{2}})\n", caseT, ctor, ctor, caseT)
		case "zapcore.ArrayMarshaler":
			fmt.Fprintf(&b, "\tboundedCheck[%s](t, %q, %s, []%s{boundedAM{1}})\n", caseT, ctor, ctor, caseT)
		case "error":
			fmt.Fprintf(&b, "\tboundedCheck[%s](t, %q, %s, []%s{sampleErr})\n", caseT, ctor, ctor, caseT)
		case "fmt.Stringer":
			fmt.Fprintf(&b, "\tboundedCheck[%s](t, %q, %s, []%s{boundedStr{1}})\n", caseT, ctor, ctor, caseT)
		default:
			fmt.Fprintf(&b, "\tboundedCheck[%s](t, %q, %s, boundedSamples[%s](rnd))\n", caseT, ctor, ctor, caseT)
		}
	}
	b.WriteString(`	// documented precedence of the interface cases
	if got, want := Any("k", boundedBoth{1}), NamedError("k", boundedBoth{1}); !reflect.DeepEqual(got, want) {
		t.Errorf("BOUNDED-VIOLATION Any on a value that is both error and Stringer = %+v, want the error field %+v", got, want)
	}
	if got, want := Any("k", boundedOMErr{1}), Object("k", boundedOMErr{1}); !reflect.DeepEqual(got, want) {
		t.Errorf("BOUNDED-VIOLATION Any on a value that is both ObjectMarshaler and error = %+v, want the object field %+v", got, want)
	}
	// a type outside the list falls back to reflection
	if got, want := Any("k", boundedOther{3}), Reflect("k", boundedOther{3}); !reflect.DeepEqual(got, want) {
		t.Errorf("BOUNDED-VIOLATION Any on an unlisted type = %+v, want the reflection field %+v", got, want)
	}
}
`)
	dir := filepath.Join(root, "out", "bounded")
	os.MkdirAll(dir, 0o755)
	tf := filepath.Join(dir, "any_bounded_test.go")
	os.WriteFile(tf, []byte(b.String()), 0o644)
	res.TestFile = tf
	out, failed := runOverlayTestNamed(repo, ".", false, tf, "^TestBoundedVerifAny$")
	res.Passed = !failed
	if failed {
		res.Output = truncate(out, 3000)
	}
	return res
}
