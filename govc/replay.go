package main

// replayObligation turns a solver model into inputs for the real code, when a
// template exists for the obligation's function. Returns true when the real
// code reproduced the violation.
func replayObligation(root, repo, prop string, o *Obligation, payload map[string]interface{}) bool {
	return false
}
