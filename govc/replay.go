package main

import (
	"bytes"
	"encoding/json"
	"fmt"
	"go/types"
	"math/big"
	"os"
	"os/exec"
	"path/filepath"
	"regexp"
	"strings"
	"text/template"
)

// Replay: when a solver refutes an obligation it gives a model. For functions with a replay driver
// the model values of the driver's inputs are read back (get-value on the refuting query), turned
// into a Go test that calls the REAL function on those inputs and evaluates the runtime form of the
// clause (an independent oracle written next to the driver), and the test is injected into the
// package with `go test -overlay` (nothing is written under the repository). Only when that test
// fails is the violation reported as reproduced; otherwise the VIOLATION line ends with
// no-failing-input-found and the replay file carries the model and the solver output.

type replayDriver struct {
	// terms the driver needs, as SMT terms over the query's constants (built with ctx helpers)
	terms func(c *Ctx) (map[string]string, bool)
	pkg   string // package directory relative to the repo
	exp   bool   // lives in the exp module
	tmpl  string // Go test template; fields are the decoded inputs
	// byte-string inputs (SMT terms of sort Bytes): read back as length + elements and rendered as a Go []byte literal
	bytesTerms func(c *Ctx) (map[string]string, bool)
	// string inputs (SMT constants of sort Bytes): read back through blen / bat
	stringTerms func(c *Ctx) (map[string]string, bool)
}

var replayDrivers = map[string]*replayDriver{
	"(zapcore.Field).AddTo": {
		pkg: "zapcore",
		terms: func(c *Ctx) (map[string]string, bool) {
			f := c.paramConst("f")
			if f == "" {
				return nil, false
			}
			ft := c.fn.Params[0].Type()
			return map[string]string{
				"Type":    fmt.Sprintf("(%s %s)", c.selNameByField(ft, "Type"), f),
				"Integer": fmt.Sprintf("(%s %s)", c.selNameByField(ft, "Integer"), f),
			}, true
		},
		tmpl: `package zapcore

import (
	"math"
	"reflect"
	"testing"
	"time"
)

// Replay of a refuted obligation of Field.AddTo: the field type and integer slot come from the
// solver's model; the oracle below is the documented unpacking of the union.
func TestReplayVerif(t *testing.T) {
	typ, integer := FieldType({{.Type}}), int64({{.Integer}})
	var want interface{}
	switch typ {
	case BoolType:
		want = integer == 1
	case DurationType:
		want = time.Duration(integer)
	case Float64Type:
		want = math.Float64frombits(uint64(integer))
	case Float32Type:
		want = math.Float32frombits(uint32(integer))
	case Int64Type:
		want = integer
	case Int32Type:
		want = int32(integer)
	case Int16Type:
		want = int16(integer)
	case Int8Type:
		want = int8(integer)
	case Uint64Type:
		want = uint64(integer)
	case Uint32Type:
		want = uint32(integer)
	case Uint16Type:
		want = uint16(integer)
	case Uint8Type:
		want = uint8(integer)
	case UintptrType:
		want = uintptr(integer)
	default:
		t.Skipf("replay driver covers the scalar field types only (type %d)", typ)
	}
	enc := NewMapObjectEncoder()
	Field{Key: "k", Type: typ, Integer: integer}.AddTo(enc)
	got, ok := enc.Fields["k"]
	same := ok && reflect.TypeOf(got) == reflect.TypeOf(want)
	if same {
		switch w := want.(type) {
		case float64:
			same = math.Float64bits(w) == math.Float64bits(got.(float64))
		case float32:
			same = math.Float32bits(w) == math.Float32bits(got.(float32))
		default:
			same = got == want
		}
	}
	if !same {
		t.Fatalf("REPLAY-VIOLATION Field{Type:%d, Integer:%d}.AddTo delivered %T(%v), the union holds %T(%v)", typ, integer, got, got, want, want)
	}
}
`,
	},
	"(*zapcore.counter).IncCheckReset": {
		pkg: "zapcore",
		terms: func(c *Ctx) (map[string]string, bool) {
			cc, t, tick := c.paramConst("c"), c.paramConst("t"), c.paramConst("tick")
			if cc == "" || t == "" || tick == "" {
				return nil, false
			}
			ct := deref(c.fn.Params[0].Type())
			resetAt := c.subRefByName(ct, "resetAt", cc)
			counter := c.subRefByName(ct, "counter", cc)
			if resetAt == "" || counter == "" {
				return nil, false
			}
			return map[string]string{
				"ResetAt": fmt.Sprintf("(select %s %s)", c.hget(c.entry, "H:sync_atomic.Int64.v"), resetAt),
				"Counter": fmt.Sprintf("(select %s %s)", c.hget(c.entry, "H:sync_atomic.Uint64.v"), counter),
				"Now":     fmt.Sprintf("(|spec:unixNano| %s)", t),
				"Tick":    tick,
			}, true
		},
		tmpl: `package zapcore

import (
	"testing"
	"time"
)

// Replay of a refuted obligation of counter.IncCheckReset: counter state, time stamp and tick come
// from the solver's model; the oracle is the window rule of the property.
func TestReplayVerif(t *testing.T) {
	resetAt, countBits, now, tick := int64({{.ResetAt}}), int64({{.Counter}}), int64({{.Now}}), int64({{.Tick}})
	count := uint64(countBits) // (the model value is printed as a signed 64-bit number)
	var c counter
	c.resetAt.Store(resetAt)
	c.counter.Store(count)
	got := c.IncCheckReset(time.Unix(0, now), time.Duration(tick))
	wantN, wantReset := uint64(1), now+tick
	if resetAt > now {
		wantN, wantReset = count+1, resetAt
	}
	if got != wantN || c.counter.Load() != wantN || c.resetAt.Load() != wantReset {
		t.Fatalf("REPLAY-VIOLATION IncCheckReset(resetAt=%d counter=%d now=%d tick=%d) = %d (counter %d, resetAt %d), want %d (counter %d, resetAt %d)",
			resetAt, count, now, tick, got, c.counter.Load(), c.resetAt.Load(), wantN, wantN, wantReset)
	}
}
`,
	},
	"(zapcore.Level).String": levelDriver("String", `map[Level]string{-1: "debug", 0: "info", 1: "warn", 2: "error", 3: "dpanic", 4: "panic", 5: "fatal"}`, `"Level(%d)"`),
	"(zapcore.Level).CapitalString": levelDriver("CapitalString", `map[Level]string{-1: "DEBUG", 0: "INFO", 1: "WARN", 2: "ERROR", 3: "DPANIC", 4: "PANIC", 5: "FATAL"}`, `"LEVEL(%d)"`),
	"(zapcore.Level).Enabled": {
		pkg: "zapcore",
		terms: func(c *Ctx) (map[string]string, bool) {
			l, lvl := c.paramConst("l"), c.paramConst("lvl")
			return map[string]string{"L": l, "Lvl": lvl}, l != "" && lvl != ""
		},
		tmpl: `package zapcore

import "testing"

func TestReplayVerif(t *testing.T) {
	l, lvl := Level(int8({{.L}})), Level(int8({{.Lvl}}))
	if got, want := l.Enabled(lvl), lvl >= l; got != want {
		t.Fatalf("REPLAY-VIOLATION Level(%d).Enabled(%d) = %v, want %v", l, lvl, got, want)
	}
}
`,
	},
}

func init() {
	// integer field constructors of package zap: the value parameter comes from the model, the oracle is
	// "the int64 slot holds the value, sign- or zero-extended" (C03)
	for _, c := range [][3]string{{"Int64", "int64", "Int64Type"}, {"Int32", "int32", "Int32Type"}, {"Int16", "int16", "Int16Type"}, {"Int8", "int8", "Int8Type"},
		{"Uint64", "uint64", "Uint64Type"}, {"Uint32", "uint32", "Uint32Type"}, {"Uint16", "uint16", "Uint16Type"}, {"Uint8", "uint8", "Uint8Type"},
		{"Uintptr", "uintptr", "UintptrType"}, {"Int", "int", "Int64Type"}, {"Uint", "uint", "Uint64Type"}} {
		name, typ, ft := c[0], c[1], c[2]
		replayDrivers["zap."+name] = &replayDriver{
			pkg: ".",
			terms: func(c *Ctx) (map[string]string, bool) {
				v := c.paramConst("val")
				return map[string]string{"Val": v}, v != ""
			},
			tmpl: `package zap

import (
	"testing"

	"go.uber.org/zap/zapcore"
)

func TestReplayVerif(t *testing.T) {
	raw := int64({{.Val}}) // model value, printed as a signed 64-bit number
	val := ` + typ + `(raw)
	f := ` + name + `("k", val)
	if f.Key != "k" || f.Type != zapcore.` + ft + ` || f.Integer != int64(val) || f.String != "" || f.Interface != nil {
		t.Fatalf("REPLAY-VIOLATION ` + name + `(k, %d) = %+v, want Type ` + ft + ` and Integer %d", val, f, int64(val))
	}
}
`,
		}
	}
	replayDrivers["zap.Duration"] = &replayDriver{
		pkg: ".",
		terms: func(c *Ctx) (map[string]string, bool) {
			v := c.paramConst("val")
			return map[string]string{"Val": v}, v != ""
		},
		tmpl: `package zap

import (
	"testing"
	"time"

	"go.uber.org/zap/zapcore"
)

func TestReplayVerif(t *testing.T) {
	val := time.Duration(int64({{.Val}}))
	f := Duration("k", val)
	if f.Key != "k" || f.Type != zapcore.DurationType || f.Integer != int64(val) || f.String != "" || f.Interface != nil {
		t.Fatalf("REPLAY-VIOLATION Duration(k, %d) = %+v, want Type DurationType and Integer %d", int64(val), f, int64(val))
	}
}
`,
	}
	replayDrivers["zapcore.fnv32a"] = &replayDriver{
		pkg:   "zapcore",
		terms: func(c *Ctx) (map[string]string, bool) { return map[string]string{}, true },
		stringTerms: func(c *Ctx) (map[string]string, bool) {
			p := c.paramConst("s")
			return map[string]string{"S": p}, p != ""
		},
		tmpl: `package zapcore

import (
	"hash/fnv"
	"testing"
)

// Replay of a refuted obligation of fnv32a: the message comes from the solver's model; the oracle is hash/fnv.
func TestReplayVerif(t *testing.T) {
	s := {{.S}}
	h := fnv.New32a()
	h.Write([]byte(s))
	if got, want := fnv32a(s), h.Sum32(); got != want {
		t.Fatalf("REPLAY-VIOLATION fnv32a(%q) = %d, want %d (32-bit FNV-1a over the bytes)", s, got, want)
	}
}
`,
	}
	replayDrivers["(*zapcore.Level).UnmarshalText"] = &replayDriver{
		pkg: "zapcore",
		terms: func(c *Ctx) (map[string]string, bool) {
			l := c.paramConst("l")
			if l == "" {
				return nil, false
			}
			// the level stored at *l on entry
			return map[string]string{"Init": c.hsel(c.entry, c.cellComp(deref(c.fn.Params[0].Type())), l)}, true
		},
		bytesTerms: func(c *Ctx) (map[string]string, bool) {
			p := c.paramConst("text")
			if p == "" {
				return nil, false
			}
			return map[string]string{"Text": p}, true
		},
		tmpl: `package zapcore

import (
	"strings"
	"testing"
)

// Replay of a refuted obligation of Level.UnmarshalText: the initial level and the text come from the solver's
// model; the oracle is the documented name table (any letter case; "" reads as info; "warning" as warn).
func TestReplayVerif(t *testing.T) {
	init, text := Level(int8({{.Init}})), {{.Text}}
	names := map[string]Level{"debug": DebugLevel, "info": InfoLevel, "": InfoLevel, "warn": WarnLevel, "warning": WarnLevel, "error": ErrorLevel, "dpanic": DPanicLevel, "panic": PanicLevel, "fatal": FatalLevel}
	want, known := names[string(text)]
	if !known {
		want, known = names[strings.ToLower(string(text))]
	}
	l := init
	err := l.UnmarshalText(text)
	switch {
	case known && (err != nil || l != want):
		t.Fatalf("REPLAY-VIOLATION Level(%d).UnmarshalText(%q): level %d, err %v; want level %d, no error", init, text, l, err, want)
	case !known && (err == nil || l != init):
		t.Fatalf("REPLAY-VIOLATION Level(%d).UnmarshalText(%q): level %d, err %v; want an error and the level unchanged", init, text, l, err)
	}
}
`,
	}
	replayDrivers["exp/zapslog.convertSlogLevel"] = &replayDriver{
		pkg: "zapslog", exp: true,
		terms: func(c *Ctx) (map[string]string, bool) {
			v := c.paramConst("l")
			return map[string]string{"L": v}, v != ""
		},
		tmpl: `package zapslog

import (
	"log/slog"
	"testing"

	"go.uber.org/zap/zapcore"
)

// slog levels map to the zap level of their band: [8,..) error, [4,8) warn, [0,4) info, below debug.
func TestReplayVerif(t *testing.T) {
	l := slog.Level(int64({{.L}}))
	want := zapcore.DebugLevel
	switch {
	case l >= 8:
		want = zapcore.ErrorLevel
	case l >= 4:
		want = zapcore.WarnLevel
	case l >= 0:
		want = zapcore.InfoLevel
	}
	if got := convertSlogLevel(l); got != want {
		t.Fatalf("REPLAY-VIOLATION convertSlogLevel(%d) = %v, want %v", int64(l), got, want)
	}
}
`,
	}
}

func levelDriver(method, table, dflt string) *replayDriver {
	return &replayDriver{
		pkg: "zapcore",
		terms: func(c *Ctx) (map[string]string, bool) {
			l := c.paramConst("l")
			return map[string]string{"L": l}, l != ""
		},
		tmpl: `package zapcore

import (
	"fmt"
	"testing"
)

func TestReplayVerif(t *testing.T) {
	l := Level(int8({{.L}}))
	names := ` + table + `
	want, ok := names[l]
	if !ok {
		want = fmt.Sprintf(` + dflt + `, l)
	}
	if got := l.` + method + `(); got != want {
		t.Fatalf("REPLAY-VIOLATION Level(%d).` + method + `() = %q, want %q", l, got, want)
	}
}
`,
	}
}

// paramConst: the SMT constant standing for parameter name of the function under verification.
func (c *Ctx) paramConst(name string) string {
	re := regexp.MustCompile(`^\(declare-const (\|?p_` + regexp.QuoteMeta(name) + `![0-9]+\|?) `)
	for _, d := range c.decls {
		if m := re.FindStringSubmatch(d); m != nil {
			return m[1]
		}
	}
	return ""
}

// selNameByField: the ADT selector of a struct field, by name.
func (c *Ctx) selNameByField(t types.Type, field string) string {
	st, ok := t.Underlying().(*types.Struct)
	if !ok {
		return ""
	}
	for i := 0; i < st.NumFields(); i++ {
		if st.Field(i).Name() == field {
			return c.selName(t, i)
		}
	}
	return ""
}

// subRefByName: address of a struct-typed field, by name.
func (c *Ctx) subRefByName(t types.Type, field, base string) string {
	st, ok := t.Underlying().(*types.Struct)
	if !ok {
		return ""
	}
	for i := 0; i < st.NumFields(); i++ {
		if st.Field(i).Name() == field {
			return c.subRef(t, i, base)
		}
	}
	return ""
}

// decodeSMTInt turns a get-value answer for an integer / bit-vector / Bool term into a Go literal.
func decodeSMTInt(v string, signedBits int) (string, bool) {
	v = strings.TrimSpace(v)
	switch {
	case v == "true" || v == "false":
		return v, true
	case strings.HasPrefix(v, "#x"), strings.HasPrefix(v, "#b"):
		n := new(big.Int)
		base := 16
		if strings.HasPrefix(v, "#b") {
			base = 2
		}
		if _, ok := n.SetString(v[2:], base); !ok {
			return "", false
		}
		bits := (len(v) - 2) * 4
		if base == 2 {
			bits = len(v) - 2
		}
		if signedBits != 0 && n.Bit(bits-1) == 1 {
			n.Sub(n, new(big.Int).Lsh(big.NewInt(1), uint(bits)))
		}
		return n.String(), true
	case strings.HasPrefix(v, "(- "):
		inner := strings.TrimSuffix(strings.TrimPrefix(v, "(- "), ")")
		if _, ok := new(big.Int).SetString(strings.TrimSpace(inner), 10); ok {
			return "-" + strings.TrimSpace(inner), true
		}
	default:
		if _, ok := new(big.Int).SetString(v, 10); ok {
			return v, true
		}
	}
	return "", false
}

// getValues re-runs the refuting query asking for the values of terms in the model found.
func getValues(file string, terms map[string]string) (map[string]string, string) {
	b, err := os.ReadFile(file)
	if err != nil {
		return nil, err.Error()
	}
	var names, ts []string
	for k, t := range terms {
		names = append(names, k)
		ts = append(ts, t)
	}
	q := strings.Replace(string(b), "(get-model)", "(get-value ("+strings.Join(ts, " ")+"))", 1)
	if replayExtraAsserts != "" {
		if i := strings.LastIndex(q, "(check-sat)"); i >= 0 {
			q = q[:i] + replayExtraAsserts + q[i:]
		}
	}
	qf := strings.TrimSuffix(file, ".smt2") + ".values.smt2"
	os.WriteFile(qf, []byte(q), 0o644)
	for _, solver := range [][]string{{"z3-new", "-T:20", qf}, {"/usr/bin/z3", "-T:20", qf}} {
		var out bytes.Buffer
		cmd := exec.Command(solver[0], solver[1:]...)
		cmd.Stdout = &out
		cmd.Stderr = &out
		cmd.Run()
		txt := out.String()
		if !strings.HasPrefix(strings.TrimSpace(txt), "sat") {
			continue
		}
		body := strings.TrimSpace(strings.TrimPrefix(strings.TrimSpace(txt), "sat"))
		vals := parseGetValue(body)
		if len(vals) != len(ts) {
			return nil, txt
		}
		res := map[string]string{}
		for i, n := range names {
			res[n] = vals[i]
		}
		return res, txt
	}
	return nil, "no solver reproduced a model for the value query"
}

// parseGetValue splits "((t1 v1) (t2 v2) ...)" into the values, in order.
func parseGetValue(s string) []string {
	s = strings.TrimSpace(s)
	if !strings.HasPrefix(s, "(") {
		return nil
	}
	s = s[1 : len(s)-1]
	var out []string
	depth, start := 0, -1
	for i, r := range s {
		switch r {
		case '(':
			if depth == 0 {
				start = i
			}
			depth++
		case ')':
			depth--
			if depth == 0 && start >= 0 {
				pair := s[start+1 : i]
				// value = last top-level s-expression of the pair
				out = append(out, lastSexpr(pair))
				start = -1
			}
		}
	}
	return out
}

func lastSexpr(s string) string {
	s = strings.TrimSpace(s)
	if strings.HasSuffix(s, ")") {
		depth := 0
		for i := len(s) - 1; i >= 0; i-- {
			switch s[i] {
			case ')':
				depth++
			case '(':
				depth--
				if depth == 0 {
					return s[i:]
				}
			}
		}
	}
	if i := strings.LastIndexAny(s, " \n\t"); i >= 0 {
		return s[i+1:]
	}
	return s
}

// extra assertions added to the value queries: blocking clauses for candidate inputs already tried
var replayExtraAsserts string

// replayObligation: true when the real code reproduced the violation on inputs taken from a model of the
// refuting query. A model of the quantifier-free refutation form need not be a real counterexample (facts
// under quantifiers are missing from it), so up to five different candidates are tried: after each candidate
// that the real code handles correctly, its input values are excluded and the solver is asked again.
func replayObligation(root, repo, prop string, c *Ctx, o *Obligation, payload map[string]interface{}) bool {
	replayExtraAsserts = ""
	defer func() { replayExtraAsserts = "" }()
	var tried []interface{}
	for attempt := 0; attempt < 5; attempt++ {
		p := map[string]interface{}{}
		ok, block := replayOnce(root, repo, prop, c, o, p, attempt)
		payload["replay"] = p["replay"]
		if ok {
			payload["replay_candidates_tried"] = attempt + 1
			return true
		}
		tried = append(tried, p["replay"])
		if block == "" {
			break
		}
		replayExtraAsserts += "(assert (not " + block + "))\n"
	}
	if len(tried) > 1 {
		payload["replay_candidates"] = tried
	}
	return false
}

func replayOnce(root, repo, prop string, c *Ctx, o *Obligation, payload map[string]interface{}, attempt int) (bool, string) {
	var blockParts []string
	ok := replayOnceInner(root, repo, prop, c, o, payload, attempt, &blockParts)
	if ok || len(blockParts) == 0 {
		return ok, ""
	}
	return false, "(and " + strings.Join(blockParts, " ") + ")"
}

func replayOnceInner(root, repo, prop string, c *Ctx, o *Obligation, payload map[string]interface{}, attempt int, blockParts *[]string) bool {
	if c == nil || c.fn == nil || o.File == "" {
		return false
	}
	id := shortID(c.fn.String())
	d := replayDrivers[id]
	if d == nil {
		payload["replay"] = "no replay driver for " + id + " (the model and the solver output are in this file)"
		return false
	}
	terms, ok := d.terms(c)
	if !ok {
		payload["replay"] = "replay driver for " + id + ": inputs not found in the query"
		return false
	}
	vals, raw := getValues(o.File, terms)
	if vals == nil {
		payload["replay"] = map[string]interface{}{"driver": id, "error": "could not read the model values back", "solver_output": truncate(raw, 2000)}
		return false
	}
	inputs := map[string]string{}
	for k, v := range vals {
		*blockParts = append(*blockParts, fmt.Sprintf("(= %s %s)", terms[k], v))
		lit, ok := decodeSMTInt(v, 64)
		if !ok {
			payload["replay"] = map[string]interface{}{"driver": id, "error": "model value of " + k + " is not a number: " + truncate(v, 200)}
			return false
		}
		inputs[k] = lit
	}
	if d.bytesTerms != nil {
		bts, ok := d.bytesTerms(c)
		if !ok {
			payload["replay"] = "replay driver for " + id + ": byte-string inputs not found in the query"
			return false
		}
		for name, term := range bts {
			// term is a []byte parameter (sort Slice): its length and its cells in the entry heap (not the abstract content
			// term, whose laws are absent from the quantifier-free refutation form)
			lv, raw := getValues(o.File, map[string]string{"len": fmt.Sprintf("(sl_len %s)", term)})
			if lv == nil {
				payload["replay"] = map[string]interface{}{"driver": id, "error": "could not read back the length of " + name, "solver_output": truncate(raw, 1000)}
				return false
			}
			*blockParts = append(*blockParts, fmt.Sprintf("(= (sl_len %s) %s)", term, lv["len"]))
			ls, ok := decodeSMTInt(lv["len"], 64)
			n, _ := new(big.Int).SetString(ls, 10)
			if !ok || n == nil || n.Sign() < 0 || n.Cmp(big.NewInt(64)) > 0 {
				payload["replay"] = map[string]interface{}{"driver": id, "error": "model length of " + name + " is not in 0..64: " + lv["len"]}
				return false
			}
			elems := map[string]string{}
			for i := 0; i < int(n.Int64()); i++ {
				elems[fmt.Sprintf("b%03d", i)] = fmt.Sprintf("(select %s (elem (sl_arr %s) (+ (sl_off %s) %d)))", c.hget(c.entry, c.elemComp(types.Typ[types.Uint8])), term, term, i)
			}
			lit := "[]byte{"
			if len(elems) > 0 {
				ev, raw := getValues(o.File, elems)
				if ev == nil {
					payload["replay"] = map[string]interface{}{"driver": id, "error": "could not read back the bytes of " + name, "solver_output": truncate(raw, 1000)}
					return false
				}
				for i := 0; i < int(n.Int64()); i++ {
					b, ok := decodeSMTInt(ev[fmt.Sprintf("b%03d", i)], 64)
					if !ok {
						return false
					}
					bi, _ := new(big.Int).SetString(b, 10)
					lit += fmt.Sprintf("%d, ", new(big.Int).And(bi, big.NewInt(255)).Int64())
				}
			}
			inputs[name] = lit + "}"
		}
	}
	if d.stringTerms != nil {
		sts, ok := d.stringTerms(c)
		if !ok {
			payload["replay"] = "replay driver for " + id + ": string inputs not found in the query"
			return false
		}
		for name, term := range sts {
			// prefer a short string: bound the length in the value queries when such a model exists
			bound := fmt.Sprintf("(assert (and %s %s))\n", c.le(c.idx(0), fmt.Sprintf("(blen %s)", term)), c.le(fmt.Sprintf("(blen %s)", term), c.idx(12)))
			if !strings.Contains(replayExtraAsserts, bound) {
				saved := replayExtraAsserts
				replayExtraAsserts += bound
				if v, _ := getValues(o.File, map[string]string{"len": fmt.Sprintf("(blen %s)", term)}); v == nil {
					replayExtraAsserts = saved
				}
			}
			lv, raw := getValues(o.File, map[string]string{"len": fmt.Sprintf("(blen %s)", term)})
			if lv == nil {
				payload["replay"] = map[string]interface{}{"driver": id, "error": "could not read back the length of " + name, "solver_output": truncate(raw, 1000)}
				return false
			}
			*blockParts = append(*blockParts, fmt.Sprintf("(= (blen %s) %s)", term, lv["len"]))
			ls, ok := decodeSMTInt(lv["len"], 64)
			n, _ := new(big.Int).SetString(ls, 10)
			if !ok || n == nil || n.Sign() < 0 || n.Cmp(big.NewInt(64)) > 0 {
				payload["replay"] = map[string]interface{}{"driver": id, "error": "model length of " + name + " is not in 0..64: " + lv["len"]}
				return false
			}
			elems := map[string]string{}
			for i := 0; i < int(n.Int64()); i++ {
				elems[fmt.Sprintf("b%03d", i)] = fmt.Sprintf("(bat %s %s)", term, c.idx(int64(i)))
			}
			lit := "string([]byte{"
			if len(elems) > 0 {
				ev, raw := getValues(o.File, elems)
				if ev == nil {
					payload["replay"] = map[string]interface{}{"driver": id, "error": "could not read back the bytes of " + name, "solver_output": truncate(raw, 1000)}
					return false
				}
				for i := 0; i < int(n.Int64()); i++ {
					b, ok := decodeSMTInt(ev[fmt.Sprintf("b%03d", i)], 64)
					if !ok {
						return false
					}
					bi, _ := new(big.Int).SetString(b, 10)
					lit += fmt.Sprintf("%d, ", new(big.Int).And(bi, big.NewInt(255)).Int64())
				}
			}
			inputs[name] = lit + "})"
		}
	}
	var src bytes.Buffer
	if err := template.Must(template.New("t").Parse(d.tmpl)).Execute(&src, inputs); err != nil {
		return false
	}
	dir := filepath.Join(root, "out", "replay", prop)
	os.MkdirAll(dir, 0o755)
	testFile := filepath.Join(dir, sanitize(truncate(o.Name, 100))+"_replay_test.go")
	if attempt > 0 {
		testFile = filepath.Join(dir, sanitize(truncate(o.Name, 100))+fmt.Sprintf("_replay%d_test.go", attempt+1))
	}
	os.WriteFile(testFile, src.Bytes(), 0o644)
	out, failed := runOverlayTest(repo, d.pkg, d.exp, testFile)
	reproduced := failed && strings.Contains(out, "REPLAY-VIOLATION")
	payload["replay"] = map[string]interface{}{
		"driver": id, "inputs": inputs, "test_file": testFile, "package": d.pkg,
		"command": fmt.Sprintf("govc replay %s", testFile), "output": truncate(out, 3000), "reproduced_on_real_code": reproduced,
	}
	return reproduced
}

// runOverlayTest injects testFile into repo/pkg through -overlay and runs TestReplayVerif.
func runOverlayTest(repo, pkg string, exp bool, testFile string) (string, bool) {
	return runOverlayTestNamed(repo, pkg, exp, testFile, "^TestReplayVerif$")
}

func runOverlayTestNamed(repo, pkg string, exp bool, testFile, run string) (string, bool) {
	pkgDir := filepath.Join(repo, pkg)
	if exp {
		pkgDir = filepath.Join(repo, "exp", pkg)
	}
	tmp, err := os.MkdirTemp("", "govc-replay")
	if err != nil {
		return err.Error(), false
	}
	defer os.RemoveAll(tmp)
	ov := map[string]map[string]string{"Replace": {filepath.Join(pkgDir, "zz_verif_replay_test.go"): testFile}}
	b, _ := json.Marshal(ov)
	ovf := filepath.Join(tmp, "ov.json")
	os.WriteFile(ovf, b, 0o644)
	cmd := exec.Command("bash", "-c", "ulimit -v 8000000; exec go test -overlay "+ovf+" -vet=off -count=1 -timeout 120s -run '"+run+"' .")
	cmd.Dir = pkgDir
	cmd.Env = append(os.Environ(), "GOFLAGS=-mod=mod", "GOPROXY=off", "GOSUMDB=off", "GOTOOLCHAIN=local")
	var out bytes.Buffer
	cmd.Stdout = &out
	cmd.Stderr = &out
	err = cmd.Run()
	return out.String(), err != nil
}

// cmdReplay re-runs a stored replay test: govc replay <test file or replay json> [--repo dir]
func cmdReplay(args []string) int {
	repo := "/repo"
	var path string
	for i := 0; i < len(args); i++ {
		if args[i] == "--repo" && i+1 < len(args) {
			repo = args[i+1]
			i++
		} else {
			path = args[i]
		}
	}
	if path == "" {
		fmt.Println("usage: govc replay <replay json | replay test file> [--repo dir]")
		return 2
	}
	pkg, exp, testFile := "", false, path
	if strings.HasSuffix(path, ".json") {
		b, err := os.ReadFile(path)
		if err != nil {
			fmt.Println(err)
			return 2
		}
		var j map[string]interface{}
		json.Unmarshal(b, &j)
		r, _ := j["replay"].(map[string]interface{})
		if r == nil {
			fmt.Printf("%s\n(no executable replay: %v)\n", b, j["replay"])
			return 0
		}
		testFile, _ = r["test_file"].(string)
		pkg, _ = r["package"].(string)
	}
	if pkg == "" {
		pkg = "zapcore"
	}
	out, failed := runOverlayTest(repo, pkg, exp, testFile)
	fmt.Print(out)
	if failed {
		return 1
	}
	return 0
}
