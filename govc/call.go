package main

import (
	"fmt"
	"go/token"
	"go/types"
	"math/big"
	"sort"
	"strings"

	"golang.org/x/tools/go/ssa"
)

// ------------------------------------------------------------ tracks

type trackInfo struct {
	name   string
	kind   string
	target string
	sig    *types.Signature
	recvT  types.Type
	c      *Ctx
}

func (t *trackInfo) comp(f string) string { return "T:" + t.name + ":" + f }

func (t *trackInfo) arraySort(f string) (Sort, types.Type) {
	c := t.c
	switch {
	case f == "recv" && t.recvT != nil:
		return c.sortOf(t.recvT), t.recvT
	case f == "ts":
		return c.intS(), types.Typ[types.Int]
	case strings.HasPrefix(f, "arg"):
		var i int
		if _, err := fmt.Sscanf(f, "arg%d", &i); err == nil && i < t.sig.Params().Len() {
			pt := t.sig.Params().At(i).Type()
			return c.sortOf(pt), pt
		}
	case strings.HasPrefix(f, "ret"):
		var i int
		if _, err := fmt.Sscanf(f, "ret%d", &i); err == nil && i < t.sig.Results().Len() {
			rt := t.sig.Results().At(i).Type()
			return c.sortOf(rt), rt
		}
	}
	return "", nil
}

func (t *trackInfo) fields() []string {
	fs := []string{"ts"}
	if t.recvT != nil {
		fs = append(fs, "recv")
	}
	for i := 0; i < t.sig.Params().Len(); i++ {
		fs = append(fs, fmt.Sprintf("arg%d", i))
	}
	for i := 0; i < t.sig.Results().Len(); i++ {
		fs = append(fs, fmt.Sprintf("ret%d", i))
	}
	return fs
}

func (e *Exec) setupTracks() {
	c := e.c
	sc := e.scope(c.entry, c.entry)
	for _, tr := range e.con.Tracks {
		ti := &trackInfo{name: tr.Name, kind: tr.Kind, target: tr.Target, c: c}
		switch tr.Kind {
		case "invoke":
			i := strings.LastIndex(tr.Target, ".")
			it := sc.resolveType(tr.Target[:i])
			iface, ok := it.Underlying().(*types.Interface)
			if !ok {
				e.unsupported("track %s: %s is not an interface", tr.Name, tr.Target[:i])
			}
			obj, _, _ := types.LookupFieldOrMethod(it, true, nil, tr.Target[i+1:])
			if obj == nil {
				// unexported method: search explicitly
				for k := 0; k < iface.NumMethods(); k++ {
					if iface.Method(k).Name() == tr.Target[i+1:] {
						obj = iface.Method(k)
					}
				}
			}
			if obj == nil {
				e.unsupported("track %s: method %s not found", tr.Name, tr.Target)
			}
			ti.sig = obj.Type().(*types.Signature)
			ti.recvT = it
		case "call":
			fn := e.c.P.Funcs[tr.Target]
			if fn == nil {
				e.unsupported("track %s: function %s not found", tr.Name, tr.Target)
			}
			ti.sig = fn.Signature
			if fn.Signature.Recv() != nil {
				ti.recvT = fn.Signature.Recv().Type()
			}
		case "field":
			i := strings.LastIndex(tr.Target, ".")
			stT := sc.resolveType(tr.Target[:i])
			st, ok := stT.Underlying().(*types.Struct)
			if !ok {
				e.unsupported("track %s: %s is not a struct", tr.Name, tr.Target[:i])
			}
			for k := 0; k < st.NumFields(); k++ {
				if st.Field(k).Name() == tr.Target[i+1:] {
					ti.sig, _ = st.Field(k).Type().Underlying().(*types.Signature)
				}
			}
			if ti.sig == nil {
				e.unsupported("track %s: func-typed field %s not found", tr.Name, tr.Target)
			}
		case "fnelem":
			// a call through an element of a slice-of-functions field: target "pkg.Struct.field"
			i := strings.LastIndex(tr.Target, ".")
			stT := sc.resolveType(tr.Target[:i])
			st, ok := stT.Underlying().(*types.Struct)
			if !ok {
				e.unsupported("track %s: %s is not a struct", tr.Name, tr.Target[:i])
			}
			for k := 0; k < st.NumFields(); k++ {
				if st.Field(k).Name() == tr.Target[i+1:] {
					if sl, ok := st.Field(k).Type().Underlying().(*types.Slice); ok {
						ti.sig, _ = sl.Elem().Underlying().(*types.Signature)
					}
				}
			}
			if ti.sig == nil {
				e.unsupported("track %s: slice-of-func field %s not found", tr.Name, tr.Target)
			}
		case "result":
			// a call of the function value returned as the i-th result of F: target "F.i"
			i := strings.LastIndex(tr.Target, ".")
			fn := e.c.P.Funcs[tr.Target[:i]]
			var idx int
			fmt.Sscan(tr.Target[i+1:], &idx)
			if fn == nil || idx >= fn.Signature.Results().Len() {
				e.unsupported("track %s: result %s not found", tr.Name, tr.Target)
			}
			ti.sig, _ = fn.Signature.Results().At(idx).Type().Underlying().(*types.Signature)
			if ti.sig == nil {
				e.unsupported("track %s: result %s is not a function", tr.Name, tr.Target)
			}
		case "global":
			i := strings.LastIndex(tr.Target, ".")
			for _, p := range e.c.P.Prog.AllPackages() {
				if shortPath(p.Pkg.Path()) == tr.Target[:i] {
					if g := p.Var(tr.Target[i+1:]); g != nil {
						ti.sig, _ = deref(g.Type()).Underlying().(*types.Signature)
					}
				}
			}
			if ti.sig == nil {
				e.unsupported("track %s: func-typed global %s not found", tr.Name, tr.Target)
			}
		case "fnparam":
			for _, p := range e.fn.Params {
				if p.Name() == tr.Target {
					ti.sig, _ = p.Type().Underlying().(*types.Signature)
				}
			}
			if ti.sig == nil {
				e.unsupported("track %s: func-typed parameter %s not found", tr.Name, tr.Target)
			}
		case "calltype":
			// any dynamic call of a function value whose (named) type is the target
			ti.sig, _ = sc.resolveType(tr.Target).Underlying().(*types.Signature)
			if ti.sig == nil {
				e.unsupported("track %s: %s is not a function type", tr.Name, tr.Target)
			}
		default:
			e.unsupported("track kind %s", tr.Kind)
		}
		c.tracks[tr.Name] = ti
		c.compSort[ti.comp("n")] = c.intS()
		for _, f := range ti.fields() {
			es, _ := ti.arraySort(f)
			c.compSort[ti.comp(f)] = Sort(fmt.Sprintf("(Array %s %s)", c.intS(), es))
		}
		c.fact(fmt.Sprintf("(= %s %s)", c.hget(c.entry, ti.comp("n")), c.idx(0)))
	}
}

func (e *Exec) matchTracks(common *ssa.CallCommon) []*trackInfo {
	var out []*trackInfo
	var names []string
	for n := range e.c.tracks {
		names = append(names, n)
	}
	sort.Strings(names)
	for _, n := range names {
		ti := e.c.tracks[n]
		switch ti.kind {
		case "invoke":
			if common.IsInvoke() {
				m := common.Method.Name()
				if typeString(common.Value.Type())+"."+m == ti.target {
					out = append(out, ti)
				}
			}
		case "call":
			if f := common.StaticCallee(); f != nil && (shortID(f.String()) == ti.target || (f.Origin() != nil && shortID(f.Origin().String()) == ti.target)) {
				out = append(out, ti)
			}
		case "field":
			if !common.IsInvoke() {
				if key := fieldOfCallee(common.Value); key == ti.target {
					out = append(out, ti)
				}
			}
		case "fnelem":
			if u, ok := common.Value.(*ssa.UnOp); ok && u.Op == token.MUL {
				if ia, ok := u.X.(*ssa.IndexAddr); ok {
					if key := fieldOfCallee(ia.X); key == ti.target {
						out = append(out, ti)
					}
				}
			}
		case "result":
			if ex, ok := common.Value.(*ssa.Extract); ok {
				if call, ok := ex.Tuple.(*ssa.Call); ok {
					if f := call.Common().StaticCallee(); f != nil && fmt.Sprintf("%s.%d", shortID(f.String()), ex.Index) == ti.target {
						out = append(out, ti)
					}
				}
			}
		case "global":
			if u, ok := common.Value.(*ssa.UnOp); ok && u.Op == token.MUL {
				if g, ok := u.X.(*ssa.Global); ok && shortPath(g.Pkg.Pkg.Path())+"."+g.Name() == ti.target {
					out = append(out, ti)
				}
			}
		case "fnparam":
			if p, ok := common.Value.(*ssa.Parameter); ok && p.Name() == ti.target {
				out = append(out, ti)
			}
		case "calltype":
			if !common.IsInvoke() && common.StaticCallee() == nil && typeString(common.Value.Type()) == ti.target {
				out = append(out, ti)
			}
		}
	}
	return out
}

// fieldOfCallee: "pkg.Struct.field" if v is a load of a func-typed struct field.
func fieldOfCallee(v ssa.Value) string {
	u, ok := v.(*ssa.UnOp)
	if !ok || u.Op != token.MUL {
		if f, ok := v.(*ssa.Field); ok {
			st := f.X.Type()
			return typeString(st) + "." + st.Underlying().(*types.Struct).Field(f.Field).Name()
		}
		return ""
	}
	fa, ok := u.X.(*ssa.FieldAddr)
	if !ok {
		return ""
	}
	st := deref(fa.X.Type())
	return typeString(st) + "." + st.Underlying().(*types.Struct).Field(fa.Field).Name()
}

func (e *Exec) logTrack(ti *trackInfo, st *State, recv *Val, args []Val, rets []Val) {
	c := e.c
	k := c.hget(st.heap, ti.comp("n"))
	put := func(f string, v Val) {
		es, et := ti.arraySort(f)
		if es == "" {
			return
		}
		v = e.coerce(v, et)
		st.heap = c.hstore(st.heap, ti.comp(f), k, v.T)
	}
	if recv != nil && ti.recvT != nil {
		put("recv", *recv)
	}
	for i, a := range args {
		put(fmt.Sprintf("arg%d", i), a)
	}
	for i, r := range rets {
		put(fmt.Sprintf("ret%d", i), r)
	}
	clk := c.hget(st.heap, "$clk")
	st.heap = c.hstore(st.heap, ti.comp("ts"), k, clk)
	st.heap = c.hset(st.heap, "$clk", c.add(clk, c.idx(1)))
	st.heap = c.hset(st.heap, ti.comp("n"), c.add(k, c.idx(1)))
}

// ------------------------------------------------------------ contract lookup

type calleeInfo struct {
	con    *Contract
	name   string
	sig    *types.Signature
	pnames []string // parameter names incl. receiver first (when there is one)
	fn     *ssa.Function
	bind   []Val // closure bindings
	isFn   *ssa.Function // set when a callback contract says "is f": the called value must equal f's function constant
}

func (e *Exec) lookupCallee(common *ssa.CallCommon, fnv Val) calleeInfo {
	CS := e.c.CS
	if common.IsInvoke() {
		m := common.Method
		sig := m.Type().(*types.Signature)
		ci := calleeInfo{sig: sig}
		keys := []string{typeString(common.Value.Type()) + "." + m.Name()}
		if recv := sig.Recv(); recv != nil {
			keys = append(keys, typeString(recv.Type())+"."+m.Name())
		}
		if it, ok := common.Value.Type().(*types.Interface); ok {
			// unnamed interface type: <pkg of the calling function>.interface{M1,M2}.M (no spaces, so that it can be a contract id)
			var ms []string
			for i := 0; i < it.NumMethods(); i++ {
				ms = append(ms, it.Method(i).Name())
			}
			if pk := pkgOf(e.fn); pk != nil {
				keys = append(keys, shortPath(pk.Path())+".interface{"+strings.Join(ms, ",")+"}."+m.Name())
			}
		}
		ci.name = keys[0]
		for _, k := range keys {
			if con, ok := CS.ByID["iface "+k]; ok {
				ci.con = con
				ci.name = k
				break
			}
		}
		ci.pnames = []string{"self"}
		for i := 0; i < sig.Params().Len(); i++ {
			n := sig.Params().At(i).Name()
			if n == "" || n == "_" {
				n = fmt.Sprintf("arg%d", i)
			}
			ci.pnames = append(ci.pnames, n)
		}
		if ci.con != nil && len(ci.con.Params) > 0 {
			ci.pnames = append([]string{"self"}, ci.con.Params...)
		}
		return ci
	}
	var fn *ssa.Function
	var bind []Val
	if f := common.StaticCallee(); f != nil {
		fn = f
		if fnv.Fn != nil {
			bind = fnv.Fn.Bindings
		}
	} else if fnv.Fn != nil {
		fn = fnv.Fn.Fn
		bind = fnv.Fn.Bindings
	}
	if fn != nil {
		ci := calleeInfo{fn: fn, sig: fn.Signature, bind: bind, name: shortID(fn.String())}
		ids := []string{shortID(fn.String())}
		if o := fn.Origin(); o != nil {
			ids = append(ids, shortID(o.String()))
		}
		for _, id := range ids {
			if con, ok := CS.ByID["func "+id]; ok {
				ci.con = con
				break
			}
		}
		for _, p := range fn.Params {
			ci.pnames = append(ci.pnames, p.Name())
		}
		if len(fn.Params) == 0 && fn.Blocks == nil {
			// external function without body: names from the signature
			if r := fn.Signature.Recv(); r != nil {
				n := r.Name()
				if n == "" || n == "_" {
					n = "self"
				}
				ci.pnames = append(ci.pnames, n)
			}
			for i := 0; i < fn.Signature.Params().Len(); i++ {
				n := fn.Signature.Params().At(i).Name()
				if n == "" || n == "_" {
					n = fmt.Sprintf("arg%d", i)
				}
				ci.pnames = append(ci.pnames, n)
			}
		}
		if ci.con != nil && len(ci.con.Params) > 0 {
			ci.pnames = ci.con.Params
		}
		return ci
	}
	// dynamic call through a function value
	sig, _ := common.Value.Type().Underlying().(*types.Signature)
	ci := calleeInfo{sig: sig, name: "dynamic:" + common.Value.Name()}
	var keys []string
	if k := fieldOfCallee(common.Value); k != "" {
		keys = append(keys, k)
	}
	if p, ok := common.Value.(*ssa.Parameter); ok {
		keys = append(keys, shortID(e.fn.String())+"."+p.Name())
		if o := e.fn.Origin(); o != nil {
			keys = append(keys, shortID(o.String())+"."+p.Name())
		}
	}
	if u, ok := common.Value.(*ssa.UnOp); ok && u.Op == token.MUL {
		if g, ok := u.X.(*ssa.Global); ok {
			keys = append(keys, "global:"+shortPath(g.Pkg.Pkg.Path())+"."+g.Name())
		}
	}
	if ex, ok := common.Value.(*ssa.Extract); ok {
		if call, ok := ex.Tuple.(*ssa.Call); ok {
			if f := call.Common().StaticCallee(); f != nil {
				keys = append(keys, fmt.Sprintf("result:%s.%d", shortID(f.String()), ex.Index))
			}
		}
	}
	if fv, ok := common.Value.(*ssa.FreeVar); ok {
		keys = append(keys, shortID(e.fn.String())+"."+fv.Name())
	}
	if u, ok := common.Value.(*ssa.UnOp); ok && u.Op == token.MUL {
		if fv, ok := u.X.(*ssa.FreeVar); ok {
			// a captured function variable (captured by reference): the cell is loaded, then called
			keys = append(keys, shortID(e.fn.String())+"."+fv.Name())
		}
	}
	keys = append(keys, "type:"+typeString(common.Value.Type()))
	for _, k := range keys {
		if con, ok := CS.ByID["callback "+k]; ok {
			ci.con = con
			ci.name = "callback " + k
			break
		}
	}
	if ci.con != nil && ci.con.Is != "" {
		// the callback is declared to be exactly one static function: obligation callee.is at the call, then that function's contract
		tfn := e.c.P.Funcs[ci.con.Is]
		if tfn == nil {
			panic(unsupportedErr(fmt.Sprintf("callback %s: is %s: no such function", ci.con.ID, ci.con.Is)))
		}
		ci.con.Used = true
		ci.isFn = tfn
		ci.fn = tfn
		ci.sig = tfn.Signature
		ci.name = shortID(tfn.String())
		ci.con = CS.ByID["func "+ci.name]
		ci.pnames = nil
		for _, p := range tfn.Params {
			ci.pnames = append(ci.pnames, p.Name())
		}
		if ci.con != nil && len(ci.con.Params) > 0 {
			ci.pnames = ci.con.Params
		}
		return ci
	}
	for i := 0; sig != nil && i < sig.Params().Len(); i++ {
		n := sig.Params().At(i).Name()
		if n == "" || n == "_" {
			n = fmt.Sprintf("arg%d", i)
		}
		ci.pnames = append(ci.pnames, n)
	}
	if ci.con != nil && len(ci.con.Params) > 0 {
		ci.pnames = ci.con.Params
	}
	return ci
}

// ------------------------------------------------------------ calls

func (e *Exec) call(instr ssa.Instruction, common *ssa.CallCommon, st *State) Val {
	if b, ok := common.Value.(*ssa.Builtin); ok {
		return e.builtin(b, common, st, instr.Pos())
	}
	var args []Val
	var fnv Val
	var recv *Val
	if common.IsInvoke() {
		r := e.val(common.Value)
		recv = &r
		e.safety("nil", st, not(fmt.Sprintf("(= (if_tag %s) 0)", r.T)), "method call on nil interface", instr.Pos())
	} else {
		fnv = e.val(common.Value)
		if common.StaticCallee() == nil && fnv.Fn == nil {
			e.safety("nil", st, not(fmt.Sprintf("(= %s nilfn)", fnv.T)), "call of nil function value", instr.Pos())
		}
	}
	for _, a := range common.Args {
		args = append(args, e.val(a))
	}
	if f := common.StaticCallee(); f != nil && f.String() == "(*sync.Once).Do" && len(args) == 2 {
		e.onceDo(common, args, st, instr.Pos())
		return Val{}
	}
	return e.doCall(common, fnv, recv, args, st, instr.Pos())
}

func (e *Exec) doCall(common *ssa.CallCommon, fnv Val, recv *Val, args []Val, st *State, pos token.Pos) Val {
	c := e.c
	ci := e.lookupCallee(common, fnv)
	sig := ci.sig
	sharesCells := ci.fn != nil && (ci.fn.Parent() != nil || len(ci.fn.FreeVars) > 0)
	if ci.con == nil || ci.con.Kind != "func" || ci.con.Flags["trusted"] {
		for _, a := range args {
			if a.Fn != nil && (len(a.Fn.Bindings) > 0 || a.Fn.Fn.Parent() == e.fn) {
				sharesCells = true // a closure of this function is handed to an unverified callee, which may call it
			}
		}
	}
	e.calleeSharesCells = sharesCells
	// coerce args to parameter types
	all := args
	if recv != nil {
		all = append([]Val{*recv}, args...)
	}
	if ci.fn != nil {
		for i := range all {
			if i < len(ci.fn.Params) {
				all[i] = e.coerce(all[i], ci.fn.Params[i].Type())
			}
		}
	}
	key := ci.name
	e.callOrd[key]++
	ord := e.callOrd[key]
	if ci.isFn != nil {
		fc := c.fnConst(ci.isFn)
		c.oblige("callee", fmt.Sprintf("callee.is@call%d:%s", ord, lastSeg(ci.name)), st.pc, fmt.Sprintf("(= %s %s)", fnv.T, fc.T), "the function value called here is "+ci.name+" (declared by the callback contract)", e.pos(pos))
	}
	tracks := e.matchTracks(common)
	e.ghostAt(ci.name, ord, true, st)
	defer e.ghostAt(ci.name, ord, false, st)
	pre := st.heap

	// result values
	var rets []Val
	var result Val
	if sig != nil {
		for i := 0; i < sig.Results().Len(); i++ {
			rt := sig.Results().At(i).Type()
			v := c.freshVal("ret_"+sanitize(lastSeg(ci.name)), rt)
			c.fact(c.rangeFact(v.T, rt, 0))
			rets = append(rets, v)
		}
	}
	switch len(rets) {
	case 0:
		result = Val{}
	case 1:
		result = rets[0]
	default:
		result = Val{Tuple: rets, S: "Tuple", GT: sig.Results()}
	}

	// user asserts at this call site
	for _, a := range e.con.Asserts {
		if a.Ordinal == ord && (a.Callee == ci.name || a.Callee == lastSeg(ci.name)) {
			sc := e.scope(st.heap, c.entry)
			g := e.evalBool(sc, a.C)
			c.oblige("assert", fmt.Sprintf("assert@call%d:%s", ord, lastSeg(ci.name)), st.pc, g, "assertion before call: "+a.C.Src, e.pos(pos))
			c.factUnder(st.pc, g)
		}
	}

	if ci.con == nil {
		// unknown callee: everything may change, result arbitrary
		if ci.fn != nil && e.c.P.isZapPkg(pkgOf(ci.fn)) {
			c.noteUncontracted(ci.name)
		} else {
			c.noteUnknown(ci.name)
		}
		if e.nopanic && !e.con.Flags["trust-callees-nopanic"] {
			c.oblige("panic-effect", fmt.Sprintf("callee-may-panic@call%d:%s", ord, lastSeg(ci.name)), st.pc, "false", "call to a callee without contract in a nopanic function: "+ci.name, e.pos(pos))
		}
		e.havocAll(st)
	} else {
		con := ci.con
		con.Used = true
		e.checkFnArgs(ci, all, ord, st, pos)
		if con.Kind == "extern" || con.Kind == "iface" || con.Kind == "callback" || con.Flags["trusted"] {
			c.assumed[con.Kind+" "+con.ID] = true
		}
		binder := map[string]Val{}
		for i, n := range ci.pnames {
			if i < len(all) {
				binder[n] = all[i]
			}
		}
		if ci.fn != nil {
			for i, fv := range ci.fn.FreeVars {
				if i < len(ci.bind) {
					binder[fv.Name()] = ci.bind[i]
				}
			}
		}
		var pkg *types.Package
		if ci.fn != nil && ci.fn.Pkg != nil {
			pkg = ci.fn.Pkg.Pkg
		} else if ci.fn != nil && ci.fn.Origin() != nil && ci.fn.Origin().Pkg != nil {
			pkg = ci.fn.Origin().Pkg.Pkg
		} else {
			pkg = pkgOf(e.fn)
		}
		csc := &Scope{e: e, c: c, cur: pre, old: pre, params: binder, names: map[string]Val{}, pkg: pkg, tracks: map[string]*trackInfo{}}
		for i, r := range con.Requires {
			g := e.evalBool(csc, r)
			c.oblige("pre", fmt.Sprintf("pre[%d]@call%d:%s", i+1, ord, lastSeg(ci.name)), st.pc, g, "precondition of "+ci.name+": "+r.Src, e.pos(pos))
			c.factUnder(st.pc, g)
		}
		if ci.fn != nil && ci.fn.Signature.Recv() != nil && len(all) > 0 && len(ci.fn.Params) > 0 {
			if inv, ti := e.typeInvOf(ci.fn.Params[0].Type(), all[0], pre); ti != nil {
				c.oblige("pre", fmt.Sprintf("pre-typeinv@call%d:%s", ord, lastSeg(ci.name)), st.pc, inv, "receiver of "+ci.name+" satisfies the invariant of "+ti.Type, e.pos(pos))
				c.factUnder(st.pc, inv)
			}
		}
		for i, r := range con.Assumes {
			g := e.evalBool(csc, r)
			c.oblige("pre", fmt.Sprintf("pre-assumed[%d]@call%d:%s", i+1, ord, lastSeg(ci.name)), st.pc, g, "precondition of "+ci.name+": "+r.Src, e.pos(pos))
			c.factUnder(st.pc, g)
		}
		// panics clause of the callee
		if len(con.Panics) > 0 {
			var ps []string
			for _, p := range con.Panics {
				ps = append(ps, e.evalBool(csc, p))
			}
			pc := or(ps...)
			if e.panicsOK != "" {
				c.oblige("panic-effect", fmt.Sprintf("callee-panic-allowed@call%d:%s", ord, lastSeg(ci.name)), and(st.pc, pc), e.panicsOK, "callee may panic only when this function's panics-condition holds", e.pos(pos))
			} else if e.nopanic {
				c.oblige("panic-effect", fmt.Sprintf("callee-nopanic@call%d:%s", ord, lastSeg(ci.name)), st.pc, not(pc), "callee's panics-condition is excluded", e.pos(pos))
			}
			st.pc = c.namePC(and(st.pc, not(pc)))
		} else if e.mayPanicHere(con, ci.name) && e.hasRecoveringDefer(st) {
			// the callee may panic: explore the path on which it does (deferred functions run with a
			// panic in flight; if one of them recovers, the function returns through its recover block)
			e.panicPath(con, csc, st, ord, ci.name, pos)
		} else if e.mayPanicHere(con, ci.name) && e.nopanic && !e.con.Flags["propagates-panics"] {
			c.oblige("panic-effect", fmt.Sprintf("callee-may-panic@call%d:%s", ord, lastSeg(ci.name)), st.pc, "false", "call to a maypanic callee in a nopanic function: "+ci.name, e.pos(pos))
		}
		// effects
		csc.results = rets
		e.calleeSharesCells = sharesCells // (a nested call on a panic path may have changed it)
		e.applyModifies(con, csc, st)
		if con.Kind != "func" || con.Flags["trusted"] {
			// (a verified callee's own contract already accounts for the calls it makes through
			// its function parameters)
			e.applyClosureArgEffects(all, ci, st)
		}
		for _, gs := range con.GhostSets {
			if gs.Post {
				continue
			}
			csc.where = "ghost-set " + gs.Name
			csc.evalIdent(gs.Name)
			idx := csc.rvalue(csc.eval(gs.Idx))
			val := csc.rvalue(csc.eval(gs.Val.E))
			st.heap = c.hstore(st.heap, "G:"+gs.Name, idx.T, val.T)
		}
		for _, gs := range con.GhostSets {
			if !gs.Post {
				continue
			}
			gsc := &Scope{e: e, c: c, cur: st.heap, old: pre, params: binder, names: map[string]Val{}, pkg: pkg, tracks: map[string]*trackInfo{}, results: rets, where: "ghost-set-post " + gs.Name}
			gsc.evalIdent(gs.Name)
			idx := gsc.rvalue(gsc.eval(gs.Idx))
			val := gsc.rvalue(gsc.eval(gs.Val.E))
			st.heap = c.hstore(st.heap, "G:"+gs.Name, idx.T, val.T)
		}
		// postconditions
		psc := &Scope{e: e, c: c, cur: st.heap, old: pre, params: binder, names: map[string]Val{}, pkg: pkg, tracks: map[string]*trackInfo{}, results: rets}
		if sig != nil {
			for i := 0; i < sig.Results().Len(); i++ {
				if n := sig.Results().At(i).Name(); n != "" && n != "_" {
					psc.names[n] = rets[i]
				}
			}
		}
		if con.Flags["pure"] && len(rets) == 1 {
			// result is a function of the arguments (and of nothing else)
			app := c.pureApp(con.ID, all, rets[0])
			c.factUnder(st.pc, fmt.Sprintf("(= %s %s)", rets[0].T, app))
		}
		for _, en := range con.Ensures {
			if mentionsTracks(en.E, con) {
				continue // statements about the callee's own call log mean nothing to its caller
			}
			c.factUnder(st.pc, e.evalBool(psc, en))
		}
		for _, r := range rets {
			c.factUnder(st.pc, c.allocFact(st.heap, r))
		}
	}
	for _, ti := range tracks {
		targs, trecv := args, recv
		if recv == nil && sig != nil && sig.Recv() != nil && len(args) > 0 {
			r0 := args[0]
			trecv, targs = &r0, args[1:]
		}
		e.logTrack(ti, st, trecv, targs, rets)
	}
	return result
}

func pkgOf(f *ssa.Function) *types.Package {
	if f.Pkg != nil {
		return f.Pkg.Pkg
	}
	if o := f.Origin(); o != nil && o.Pkg != nil {
		return o.Pkg.Pkg
	}
	if f.Parent() != nil {
		return pkgOf(f.Parent())
	}
	return nil
}

func lastSeg(s string) string {
	if i := strings.LastIndex(s, "/"); i >= 0 {
		s = s[i+1:]
	}
	return s
}

func (c *Ctx) noteUncontracted(name string) {
	c.unsupported = append(c.unsupported, "uncontracted zap callee (havoc): "+name)
}
func (c *Ctx) noteUnknown(name string) {
	c.unsupported = append(c.unsupported, "unknown external callee (havoc): "+name)
}

// pureApp is the uninterpreted application standing for a pure function's result.
func (c *Ctx) pureApp(id string, args []Val, ret Val) string {
	fn := q("pure:" + id)
	var sorts, ts []string
	for _, a := range args {
		sorts = append(sorts, string(a.S))
		ts = append(ts, a.T)
	}
	c.decl("pure:"+fn, fmt.Sprintf("(declare-fun %s (%s) %s)", fn, strings.Join(sorts, " "), ret.S))
	if len(args) == 0 {
		return fn
	}
	return fmt.Sprintf("(%s %s)", fn, strings.Join(ts, " "))
}

func (e *Exec) havocAll(st *State) {
	c := e.c
	old := st.heap
	st.heap = c.hhavocExcept(old, func(n string) bool { return strings.HasPrefix(n, "T:") || n == "$clk" })
	c.allocMonotone(old, st.heap)
	e.preserveLocals(old, st.heap, func(string) bool { return true })
}

func (e *Exec) isZapPrivateComp(n string) bool {
	if strings.Contains(n, "errArrayElem.") {
		// pooled scratch wrappers of error arrays: no contract relies on their contents across calls
		return false
	}
	if strings.Contains(n, "zapcore.MapObjectEncoder.") {
		// the in-memory map encoder is user-side state (a test helper handed around as an ObjectEncoder): its
		// cursor may change under any call that is allowed to touch user state
		return false
	}
	if strings.HasPrefix(n, "T:") || n == "$clk" || strings.HasPrefix(n, "G:") || n == "$held" || n == "$closed" || n == "$once" || n == "$panic" || n == "$unpub" {
		return true
	}
	if strings.HasPrefix(n, "E:") {
		switch n[2:] {
		case "bool", "int", "int8", "int16", "int32", "int64", "uint", "uint16", "uint32", "uint64", "uintptr",
			"float32", "float64", "complex64", "complex128", "string", "__uint8", "time.Duration", "interface__", "fmt.Stringer", "error":
			// slices of plain values handed to user code (encoders, sinks) are not modified by it:
			// the same encapsulation rely as for byte slices ([]interface{}: the argument lists of the
			// sugared API and of fmt - user cores and hooks called back in between do not rewrite them)
			return true
		}
	}
	if n == "E:uint8" {
		// byte arrays: user code reaches zap's buffers only through zap's methods and does not
		// modify byte slices handed to it (io.Writer's contract) - encapsulation rely
		return true
	}
	if strings.HasPrefix(n, "H:") || strings.HasPrefix(n, "E:") || strings.HasPrefix(n, "C:") {
		rest := strings.TrimLeft(n[2:], "_")
		if strings.HasPrefix(n, "E:") && (strings.Contains(rest, "zapcore.") || strings.Contains(rest, "zap.")) {
			// slices whose element type mentions zap types are built and owned by zap
			return true
		}
		for _, p := range []string{"log_slog.", "io.", "time.", "sync_atomic.", "bufio.", "zap.", "zapcore.", "buffer.", "zapio.", "zapgrpc.", "zaptest.", "internal_", "exp_", "observer.", "zaptest_"} {
			if strings.HasPrefix(rest, p) {
				return true
			}
		}
	}
	return false
}

// preserveLocals: stack-local objects are not affected by callees.
func (e *Exec) preserveLocals(old, new *Heap, havocked func(string) bool) {
	c := e.c
	locals := e.locals
	if !e.calleeSharesCells {
		// cells of captured variables are reachable only from this function and its own closures
		locals = append(append([]localCell{}, locals...), e.captured...)
	}
	for _, l := range locals {
		if havocked(l.comp) {
			if c.hget(old, l.comp) != c.hget(new, l.comp) {
				c.fact(fmt.Sprintf("(= (select %s %s) (select %s %s))", c.hget(new, l.comp), l.ref, c.hget(old, l.comp), l.ref))
			}
		}
	}
}

type localCell struct{ comp, ref string }

// applyModifies havocs what the callee contract says may change.
func (e *Exec) applyModifies(con *Contract, csc *Scope, st *State) {
	c := e.c
	if con.Flags["pure"] {
		return
	}
	if !con.ModSet {
		e.havocAll(st)
		return
	}
	old := st.heap
	touchedAlloc := false
	var whole []string
	for _, item := range con.Modifies {
		switch {
		case item == "$all":
			e.havocAll(st)
			return
		case item == "$user":
			st.heap = c.hhavocExcept(st.heap, e.isZapPrivateComp)
			c.allocMonotone(old, st.heap)
			e.preserveLocals(old, st.heap, func(n string) bool { return !e.isZapPrivateComp(n) })
			touchedAlloc = true
		case item == "$alloc":
			// handled below
		default:
			locs := csc.resolveModifies(item)
			for _, l := range locs {
				if _, ok := c.compSort[l.comp]; !ok {
					continue
				}
				if l.ref == "" {
					before := c.hget(st.heap, l.comp)
					st.heap = c.hhavocComp(st.heap, l.comp)
					whole = append(whole, l.comp)
					if l.onlyRoot != "" && con.Kind == "extern" && strings.HasPrefix(string(c.compSortOf(l.comp)), "(Array Ref ") {
						// assumed contract of a dependency: elems(s) means the cells of s's backing array, nothing else
						after := c.hget(st.heap, l.comp)
						c.fact(fmt.Sprintf("(forall ((r!m Ref)) (! (=> (not (= (root r!m) %s)) (= (select %s r!m) (select %s r!m))) :pattern ((select %s r!m))))", l.onlyRoot, after, before, after))
					}
				} else {
					_, es := arraySorts(string(c.compSortOf(l.comp)))
					fv := c.fresh("mod", Sort(es))
					st.heap = c.hstore(st.heap, l.comp, l.ref, fv)
				}
			}
		}
	}
	if len(whole) > 0 {
		set := map[string]bool{}
		for _, w := range whole {
			set[w] = true
		}
		e.preserveLocals(old, st.heap, func(n string) bool { return set[n] })
	}
	if !touchedAlloc {
		st.heap = c.hhavocComp(st.heap, "$alloc")
		c.allocMonotone(old, st.heap)
	}
}

type modLoc struct {
	comp string
	ref  string // "" = whole component
	onlyRoot string // whole-component havoc, but (extern contracts only) cells outside the allocation of this array keep their value
}

// resolveModifies turns a modifies item into component locations.
func (sc *Scope) resolveModifies(item string) []modLoc {
	c := sc.c
	if _, ok := c.CS.Ghosts[item]; ok {
		sc.evalIdent(item) // ensure component is declared
		return []modLoc{{comp: "G:" + item}}
	}
	if strings.HasPrefix(item, "elems(") && strings.HasSuffix(item, ")") {
		ex, err := parseExpr(item[6 : len(item)-1])
		if err != nil {
			sc.fail("modifies %s: %v", item, err)
		}
		v := sc.rvalue(sc.eval(ex))
		sl, ok := v.GT.Underlying().(*types.Slice)
		if !ok {
			sc.fail("modifies elems(%s): not a slice", item)
		}
		comps := map[string]bool{}
		if isStruct(sl.Elem()) {
			sc.e.typeComps(sl.Elem(), comps)
		} else {
			comps[c.elemComp(sl.Elem())] = true
		}
		var out []modLoc
		for n := range comps {
			out = append(out, modLoc{comp: n, onlyRoot: fmt.Sprintf("(root (sl_arr %s))", v.T)})
		}
		sort.Slice(out, func(i, j int) bool { return out[i].comp < out[j].comp })
		return out
	}
	if strings.HasPrefix(item, "held(") && strings.HasSuffix(item, ")") {
		ex, err := parseExpr(item[5 : len(item)-1])
		if err != nil {
			sc.fail("modifies %s: %v", item, err)
		}
		v := sc.eval(ex)
		c.compSort["$held"] = "(Array Ref Bool)"
		return []modLoc{{comp: "$held", ref: v.T}}
	}
	if item == "panicking()" {
		c.compSort["$panic"] = SBool
		return []modLoc{{comp: "$panic"}}
	}
	if strings.HasPrefix(item, "once(") && strings.HasSuffix(item, ")") {
		ex, err := parseExpr(item[5 : len(item)-1])
		if err != nil {
			sc.fail("modifies %s: %v", item, err)
		}
		v := sc.eval(ex)
		c.compSort["$once"] = "(Array Ref Bool)"
		return []modLoc{{comp: "$once", ref: v.T}}
	}
	if i := strings.Index(item, "["); i > 0 && strings.HasSuffix(item, "]") {
		if _, ok := c.CS.Ghosts[item[:i]]; ok {
			sc.evalIdent(item[:i])
			ex, err := parseExpr(item[i+1 : len(item)-1])
			if err != nil {
				sc.fail("modifies %s: %v", item, err)
			}
			v := sc.rvalue(sc.eval(ex))
			return []modLoc{{comp: "G:" + item[:i], ref: v.T}}
		}
	}
	if strings.HasPrefix(item, "closed(") && strings.HasSuffix(item, ")") {
		ex, err := parseExpr(item[7 : len(item)-1])
		if err != nil {
			sc.fail("modifies %s: %v", item, err)
		}
		v := sc.rvalue(sc.eval(ex))
		c.compSort["$closed"] = "(Array Ref Bool)"
		return []modLoc{{comp: "$closed", ref: v.T}}
	}
	if strings.HasPrefix(item, "fields(") && strings.HasSuffix(item, ")") {
		// every component holding part of a value of the named struct type
		t := sc.resolveType(strings.TrimSuffix(strings.TrimPrefix(strings.TrimSpace(item[7:len(item)-1]), "type("), ")"))
		comps := map[string]bool{}
		sc.e.typeComps(t, comps)
		var out []modLoc
		for n := range comps {
			out = append(out, modLoc{comp: n})
		}
		sort.Slice(out, func(i, j int) bool { return out[i].comp < out[j].comp })
		return out
	}
	if strings.HasPrefix(item, "comp(") && strings.HasSuffix(item, ")") {
		return []modLoc{{comp: item[5 : len(item)-1]}}
	}
	ex, err := parseExpr(item)
	if err != nil {
		sc.fail("modifies %s: %v", item, err)
	}
	sel, ok := ex.(*ESel)
	if !ok {
		if un, ok := ex.(*EUn); ok && un.Op == "*" {
			// *p : the cell (or all fields) p points to
			p := sc.rvalue(sc.eval(un.X))
			t := deref(p.GT)
			return sc.locsOfObject(p.T, t)
		}
		sc.fail("modifies item %q must be x.f, T.f, *p, elems(s) or a ghost variable", item)
	}
	base := sc.eval(sel.X)
	var stT types.Type
	ref := ""
	switch {
	case base.TypeLit != nil:
		stT = base.TypeLit
	case base.GT != nil:
		if p, ok := base.GT.Underlying().(*types.Pointer); ok {
			stT = p.Elem()
			ref = base.T
			if pp, ok := stT.Underlying().(*types.Pointer); ok && isStruct(pp.Elem()) && !base.Addr {
				ref = c.hsel(sc.cur, c.cellComp(stT), base.T)
				stT = pp.Elem()
			}
		} else {
			sc.fail("modifies %s: base is not a pointer or type", item)
		}
	default:
		sc.fail("modifies %s: cannot resolve base", item)
	}
	st, ok := stT.Underlying().(*types.Struct)
	if !ok {
		sc.fail("modifies %s: %s is not a struct", item, typeString(stT))
	}
	for i := 0; i < st.NumFields(); i++ {
		if st.Field(i).Name() == sel.Name {
			ft := st.Field(i).Type()
			if isStruct(ft) || isArray(ft) {
				if ref == "" {
					comps := map[string]bool{}
					sc.e.typeComps(ft, comps)
					var out []modLoc
					for n := range comps {
						out = append(out, modLoc{comp: n})
					}
					sort.Slice(out, func(i, j int) bool { return out[i].comp < out[j].comp })
					return out
				}
				return sc.locsOfObject(c.subRef(stT, i, ref), ft)
			}
			return []modLoc{{comp: c.fieldComp(stT, i), ref: ref}}
		}
	}
	sc.fail("modifies %s: no field %s in %s", item, sel.Name, typeString(stT))
	return nil
}

func (sc *Scope) locsOfObject(ref string, t types.Type) []modLoc {
	c := sc.c
	st, ok := t.Underlying().(*types.Struct)
	if !ok {
		if isArray(t) {
			comps := map[string]bool{}
			sc.e.typeComps(t, comps)
			var out []modLoc
			for n := range comps {
				out = append(out, modLoc{comp: n})
			}
			sort.Slice(out, func(i, j int) bool { return out[i].comp < out[j].comp })
			return out
		}
		return []modLoc{{comp: c.cellComp(t), ref: ref}}
	}
	var out []modLoc
	for i := 0; i < st.NumFields(); i++ {
		ft := st.Field(i).Type()
		if isStruct(ft) || isArray(ft) {
			out = append(out, sc.locsOfObject(c.subRef(t, i, ref), ft)...)
		} else {
			out = append(out, modLoc{comp: c.fieldComp(t, i), ref: ref})
		}
	}
	return out
}

// callModifies (loop analysis): component names a call may write. Returns true for "everything".
func (e *Exec) callModifies(common *ssa.CallCommon, comps map[string]bool) bool {
	c := e.c
	if b, ok := common.Value.(*ssa.Builtin); ok {
		switch b.Name() {
		case "append":
			sl := common.Args[0].Type().Underlying().(*types.Slice)
			if isStruct(sl.Elem()) {
				e.typeComps(sl.Elem(), comps)
			} else {
				comps[c.elemComp(sl.Elem())] = true
			}
			comps["$alloc"] = true
		case "copy":
			sl := common.Args[0].Type().Underlying().(*types.Slice)
			if isStruct(sl.Elem()) {
				e.typeComps(sl.Elem(), comps)
			} else {
				comps[c.elemComp(sl.Elem())] = true
			}
		case "delete":
			comps[c.mapDomComp(common.Args[0].Type())] = true
		case "close":
			c.compSort["$closed"] = "(Array Ref Bool)"
			comps["$closed"] = true
		}
		return false
	}
	for _, ti := range e.matchTracks(common) {
		comps[ti.comp("n")] = true
		for _, f := range ti.fields() {
			comps[ti.comp(f)] = true
		}
		comps["$clk"] = true
	}
	var fnv Val
	if !common.IsInvoke() {
		if v, ok := e.env[common.Value]; ok {
			fnv = v
		}
	}
	ci := e.lookupCallee(common, fnv)
	if ci.con == nil {
		return true
	}
	if ci.con.Flags["pure"] {
		return false
	}
	if !ci.con.ModSet {
		return true
	}
	comps["$alloc"] = true
	for _, gs := range ci.con.GhostSets {
		comps["G:"+gs.Name] = true
	}
	// typed dummy binder
	binder := map[string]Val{}
	var ptypes []types.Type
	if common.IsInvoke() {
		ptypes = append(ptypes, common.Value.Type())
	}
	if ci.fn != nil && len(ci.fn.Params) > 0 {
		ptypes = nil
		for _, p := range ci.fn.Params {
			ptypes = append(ptypes, p.Type())
		}
	} else if ci.sig != nil {
		if !common.IsInvoke() && ci.sig.Recv() != nil {
			ptypes = append(ptypes, ci.sig.Recv().Type())
		}
		for i := 0; i < ci.sig.Params().Len(); i++ {
			ptypes = append(ptypes, ci.sig.Params().At(i).Type())
		}
	}
	for i, n := range ci.pnames {
		if i < len(ptypes) {
			binder[n] = Val{T: "dummy!", S: c.sortOf(ptypes[i]), GT: ptypes[i]}
		}
	}
	var pkg *types.Package
	if ci.fn != nil {
		pkg = pkgOf(ci.fn)
	}
	if pkg == nil {
		pkg = pkgOf(e.fn)
	}
	dummy := c.newBase()
	csc := &Scope{e: e, c: c, cur: dummy, old: dummy, params: binder, names: map[string]Val{}, pkg: pkg, tracks: map[string]*trackInfo{}}
	for _, item := range ci.con.Modifies {
		switch item {
		case "$all":
			return true
		case "$user":
			// all non-private components: approximate by "everything except private"
			for n := range c.compSort {
				if !e.isZapPrivateComp(n) {
					comps[n] = true
				}
			}
			comps["$user"] = true
		case "$alloc":
		default:
			for _, l := range csc.resolveModifies(item) {
				comps[l.comp] = true
			}
		}
	}
	return false
}

// ------------------------------------------------------------ frame of the function under verification

func (e *Exec) checkFrame(st *State, pos token.Pos) {
	e.checkFrameAgainst(e.con, e.scope(e.c.entry, e.c.entry), "frame", st, pos)
}

// checkFrameAgainst: at a return, every component that differs from the entry state differs only
// where con's modifies clause (resolved in sc, an entry-state scope) allows.
func (e *Exec) checkFrameAgainst(con *Contract, sc *Scope, label string, st *State, pos token.Pos) {
	c := e.c
	if !con.ModSet {
		return
	}
	allowedWhole := map[string]bool{}
	allowedAt := map[string][]string{}
	for _, item := range con.Modifies {
		switch item {
		case "$all":
			return
		case "$user":
			for n := range c.compSort {
				if !e.isZapPrivateComp(n) {
					allowedWhole[n] = true
				}
			}
			allowedWhole["$user"] = true
		case "$alloc":
		default:
			for _, l := range sc.resolveModifies(item) {
				if l.ref == "" {
					allowedWhole[l.comp] = true
				} else {
					allowedAt[l.comp] = append(allowedAt[l.comp], l.ref)
				}
			}
		}
	}
	for _, gs := range con.GhostSets {
		if gs.Post {
			continue // targets are named in the return state; pre-existing ones must be listed in modifies
		}
		sc.where = "ghost-set " + gs.Name
		idx := sc.rvalue(sc.eval(gs.Idx))
		allowedAt["G:"+gs.Name] = append(allowedAt["G:"+gs.Name], idx.T)
	}
	var names []string
	for n := range c.compSort {
		names = append(names, n)
	}
	sort.Strings(names)
	for _, n := range names {
		if n == "$alloc" || n == "$clk" || n == "$panic" || n == "$unpub" || strings.HasPrefix(n, "T:") || allowedWhole[n] {
			continue
		}
		if allowedWhole["$user"] && !e.isZapPrivateComp(n) {
			continue
		}
		cur, ent := c.hget(st.heap, n), c.hget(c.entry, n)
		if cur == ent {
			continue
		}
		var goal string
		if strings.HasPrefix(string(c.compSortOf(n)), "(Array Ref ") {
			var excl []string
			for _, r := range allowedAt[n] {
				excl = append(excl, fmt.Sprintf("(not (= r!f %s))", r))
			}
			goal = fmt.Sprintf("(forall ((r!f Ref)) (=> %s (= (select %s r!f) (select %s r!f))))", and(append([]string{fmt.Sprintf("(select %s (root r!f))", c.hget(c.entry, "$alloc"))}, excl...)...), cur, ent)
		} else {
			goal = fmt.Sprintf("(= %s %s)", cur, ent)
		}
		c.oblige("frame", fmt.Sprintf("%s[%s]@ret%d", label, n, e.retCount), st.pc, goal, "only declared locations of "+n+" are modified ("+label+")", e.pos(pos))
	}
}

// ------------------------------------------------------------ defer / go

func (e *Exec) execDefer(x *ssa.Defer, st *State) {
	d := deferRec{instr: x, flag: st.pc}
	common := x.Common()
	if common.IsInvoke() {
		d.recv = e.val(common.Value)
	} else if _, ok := common.Value.(*ssa.Builtin); !ok {
		d.fnv = e.val(common.Value)
	}
	for _, a := range common.Args {
		d.args = append(d.args, e.val(a))
	}
	st.defers = append(st.defers, d)
}

func (e *Exec) runDefers(st *State) {
	c := e.c
	for i := len(st.defers) - 1; i >= 0; i-- {
		d := st.defers[i]
		common := d.instr.Common()
		before := *st
		sub := State{pc: c.namePC(and(st.pc, d.flag)), heap: st.heap}
		if b, ok := common.Value.(*ssa.Builtin); ok {
			if b.Name() != "close" {
				e.unsupported("deferred builtin %s", b.Name())
			}
			c.compSort["$closed"] = "(Array Ref Bool)"
			e.safety("close", &sub, and(not(fmt.Sprintf("(= %s nil)", d.args[0].T)), not(c.hsel(sub.heap, "$closed", d.args[0].T))), "close of nil or already closed channel", d.instr.Pos())
			sub.heap = c.hstore(sub.heap, "$closed", d.args[0].T, "true")
			if d.flag == before.pc || implies(before.pc, d.flag) {
				st.heap = sub.heap
			} else {
				st.heap = c.hmerge([]string{d.flag, "true"}, []*Heap{sub.heap, before.heap})
			}
			continue
		}
		var recv *Val
		if common.IsInvoke() {
			r := d.recv
			recv = &r
		}
		e.doCall(common, d.fnv, recv, d.args, &sub, d.instr.Pos())
		if d.flag == before.pc || implies(before.pc, d.flag) {
			st.heap = sub.heap
		} else {
			st.heap = c.hmerge([]string{d.flag, "true"}, []*Heap{sub.heap, before.heap})
		}
	}
	st.defers = nil
}

func implies(pc, flag string) bool { return flag == "true" }

func (e *Exec) execGo(x *ssa.Go, st *State) {
	// The spawned function runs concurrently; sequentially we only check its preconditions.
	common := x.Common()
	var fnv Val
	var recv *Val
	if common.IsInvoke() {
		r := e.val(common.Value)
		recv = &r
	} else if _, ok := common.Value.(*ssa.Builtin); !ok {
		fnv = e.val(common.Value)
	}
	var args []Val
	for _, a := range common.Args {
		args = append(args, e.val(a))
	}
	sub := State{pc: st.pc, heap: st.heap}
	// the new goroutine holds no locks
	e.c.compSort["$held"] = "(Array Ref Bool)"
	sub.heap = e.c.hset(sub.heap, "$held", "((as const (Array Ref Bool)) false)")
	e.doCall(common, fnv, recv, args, &sub, x.Pos())
	for _, ti := range e.matchTracks(common) {
		_ = ti
		st.heap = sub.heap // keep the track log, drop nothing else (spawn has no sequential effect)
	}
}

// ------------------------------------------------------------ builtins

func (e *Exec) builtin(b *ssa.Builtin, common *ssa.CallCommon, st *State, pos token.Pos) Val {
	c := e.c
	var args []Val
	for _, a := range common.Args {
		args = append(args, e.val(a))
	}
	intT := types.Typ[types.Int]
	switch b.Name() {
	case "len":
		switch u := common.Args[0].Type().Underlying().(type) {
		case *types.Slice:
			return Val{T: fmt.Sprintf("(sl_len %s)", args[0].T), S: c.intS(), GT: intT}
		case *types.Basic:
			return Val{T: fmt.Sprintf("(blen %s)", args[0].T), S: c.intS(), GT: intT}
		case *types.Map:
			fn := q("u:maplen:" + sanitize(typeString(common.Args[0].Type())))
			dom := c.mapDomComp(common.Args[0].Type())
			ds := strings.TrimSuffix(strings.TrimPrefix(string(c.compSortOf(dom)), "(Array Ref "), ")")
			c.decl("ufn:"+fn, fmt.Sprintf("(declare-fun %s (%s) %s)", fn, ds, c.intS()))
			v := Val{T: fmt.Sprintf("(ite (= %s nil) %s (%s %s))", args[0].T, c.idx(0), fn, c.hsel(st.heap, dom, args[0].T)), S: c.intS(), GT: intT}
			c.factUnder(st.pc, c.le(c.idx(0), v.T))
			return v
		case *types.Pointer:
			if at, ok := u.Elem().Underlying().(*types.Array); ok {
				return Val{T: c.idx(at.Len()), S: c.intS(), GT: intT}
			}
		case *types.Array:
			return Val{T: c.idx(u.Len()), S: c.intS(), GT: intT}
		case *types.Chan:
			v := c.freshVal("chanlen", intT)
			c.fact(c.le(c.idx(0), v.T))
			return v
		}
	case "cap":
		switch common.Args[0].Type().Underlying().(type) {
		case *types.Slice:
			return Val{T: fmt.Sprintf("(sl_cap %s)", args[0].T), S: c.intS(), GT: intT}
		}
	case "append":
		// ghost code may be attached to the n-th append of the function (static order): ghost-at call n of append before|after
		e.callOrd["append"]++
		ord := e.callOrd["append"]
		e.ghostAt("append", ord, true, st)
		r := e.builtinAppend(common, args, st, pos)
		e.ghostAt("append", ord, false, st)
		return r
	case "copy":
		return e.builtinCopy(common, args, st, pos)
	case "delete":
		mt := common.Args[0].Type()
		k := e.coerce(args[1], mt.Underlying().(*types.Map).Key())
		dom := c.mapDomComp(mt)
		// delete on nil map is a no-op
		nh := c.hstore(st.heap, dom, args[0].T, fmt.Sprintf("(store %s %s false)", c.hsel(st.heap, dom, args[0].T), k.T))
		st.heap = c.hmerge([]string{fmt.Sprintf("(= %s nil)", args[0].T), "true"}, []*Heap{st.heap, nh})
		return Val{}
	case "close":
		c.compSort["$closed"] = "(Array Ref Bool)"
		e.safety("close", st, and(not(fmt.Sprintf("(= %s nil)", args[0].T)), not(c.hsel(st.heap, "$closed", args[0].T))), "close of nil or already closed channel", pos)
		st.heap = c.hstore(st.heap, "$closed", args[0].T, "true")
		return Val{}
	case "print", "println":
		return Val{}
	case "recover":
		// recover() returns the panic value exactly when a panic is in flight ($panic), and stops it
		c.compSort["$panic"] = SBool
		rv := c.freshVal("recovered", common.Signature().Results().At(0).Type())
		c.fact(c.rangeFact(rv.T, rv.GT, 0))
		c.factUnder(st.pc, fmt.Sprintf("(= (not (= (if_tag %s) 0)) %s)", rv.T, c.hget(st.heap, "$panic")))
		st.heap = c.hset(st.heap, "$panic", "false")
		return rv
	case "min", "max":
		t := common.Args[0].Type()
		if _, _, ok := intInfo(t); ok {
			r := e.coerce(args[0], t)
			for _, a := range args[1:] {
				a = e.coerce(a, t)
				op := "<="
				if b.Name() == "max" {
					op = ">="
				}
				r = Val{T: fmt.Sprintf("(ite %s %s %s)", c.cmp(op, r, a, t), r.T, a.T), S: r.S, GT: t}
			}
			return r
		}
	case "real", "imag", "complex":
		// complex arithmetic is opaque: uninterpreted functions of the operands
		return e.uninterp("builtin_"+b.Name()+"_"+sanitize(typeString(common.Args[0].Type())), common.Signature().Results().At(0).Type(), args...)
	case "ssa:wrapnilchk":
		e.safety("nil", st, not(fmt.Sprintf("(= %s nil)", args[0].T)), "nil receiver in bound method", pos)
		return args[0]
	}
	e.unsupported("builtin %s on %s", b.Name(), common.Args[0].Type())
	return Val{}
}

// elemFields enumerates (component, subref-builder) pairs for an element type.
func (e *Exec) elemCells(et types.Type) []func(ref string) (comp string, r string) {
	c := e.c
	var out []func(string) (string, string)
	var rec func(t types.Type, path func(string) string)
	rec = func(t types.Type, path func(string) string) {
		if st, ok := t.Underlying().(*types.Struct); ok {
			for i := 0; i < st.NumFields(); i++ {
				i := i
				ft := st.Field(i).Type()
				if isStruct(ft) {
					rec(ft, func(r string) string { return c.subRef(t, i, path(r)) })
				} else if isArray(ft) {
					// untracked
				} else {
					comp := c.fieldComp(t, i)
					out = append(out, func(r string) (string, string) { return comp, path(r) })
				}
			}
			return
		}
		comp := c.elemComp(t)
		out = append(out, func(r string) (string, string) { return comp, path(r) })
	}
	rec(et, func(r string) string { return r })
	return out
}

func (e *Exec) builtinAppend(common *ssa.CallCommon, args []Val, st *State, pos token.Pos) Val {
	c := e.c
	sT := common.Args[0].Type()
	et := sT.Underlying().(*types.Slice).Elem()
	s := args[0]
	x := args[1]
	xIsStr := isStringT(common.Args[1].Type())
	is := string(c.intS())
	var xlen string
	if xIsStr {
		xlen = fmt.Sprintf("(blen %s)", x.T)
	} else {
		xlen = fmt.Sprintf("(sl_len %s)", x.T)
	}
	r := c.fresh("app", SSlice)
	slen := fmt.Sprintf("(sl_len %s)", s.T)
	newlen := c.add(slen, xlen)
	fits := c.le(newlen, fmt.Sprintf("(sl_cap %s)", s.T))
	pre := st.heap
	c.factUnder(st.pc, fmt.Sprintf("(= (sl_len %s) %s)", r, newlen))
	c.factUnder(st.pc, c.rangeFact(r, sT, 0))
	inplace := fmt.Sprintf("(and %s (= (sl_arr %s) (sl_arr %s)) (= (sl_off %s) (sl_off %s)) (= (sl_cap %s) (sl_cap %s)))", fits, r, s.T, r, s.T, r, s.T)
	freshArr := fmt.Sprintf("(and (not %s) (not (= (sl_arr %s) nil)) (not (select %s (sl_arr %s))) (= (root (sl_arr %s)) (sl_arr %s)) (= (sl_off %s) %s))", fits, r, c.hget(pre, "$alloc"), r, r, r, r, c.idx(0))
	c.needRoot()
	c.factUnder(st.pc, fmt.Sprintf("(or %s %s)", inplace, freshArr))
	st.heap = c.hstore(st.heap, "$alloc", fmt.Sprintf("(sl_arr %s)", r), "true")
	// element contents
	for _, cell := range e.elemCells(et) {
		comp, _ := cell("x")
		oldC := c.hget(pre, comp)
		newC := c.fresh(comp+"!app", c.compSortOf(comp))
		st.heap = c.hsetRaw(st.heap, comp, newC)
		// content of the result, element by element (pattern on the clean term (sidx r k))
		_, dst := cell(fmt.Sprintf("(sidx %s k!a)", r))
		_, src := cell(fmt.Sprintf("(sidx %s k!a)", s.T))
		var srcv string
		if xIsStr {
			c.needBat()
			srcv = fmt.Sprintf("(bat %s %s)", x.T, c.sub("k!a", slen))
		} else {
			_, src2 := cell(fmt.Sprintf("(sidx %s %s)", x.T, c.sub("k!a", slen)))
			srcv = fmt.Sprintf("(select %s %s)", oldC, src2)
		}
		c.factUnder(st.pc, fmt.Sprintf("(forall ((k!a %s)) (! (=> (and %s %s) (= (select %s %s) (ite %s (select %s %s) %s))) :pattern ((sidx %s k!a))))",
			is, c.le(c.idx(0), "k!a"), c.lt("k!a", newlen), newC, dst, c.lt("k!a", slen), oldC, src, srcv, r))
		// appending nothing writes nothing
		c.factUnder(st.pc, fmt.Sprintf("(=> (= %s %s) (= %s %s))", xlen, c.idx(0), newC, oldC))
		// frame
		if !isStruct(et) {
			lo := c.add(fmt.Sprintf("(sl_off %s)", r), slen)
			hi := c.add(fmt.Sprintf("(sl_off %s)", r), newlen)
			c.factUnder(st.pc, fmt.Sprintf("(forall ((r!a Ref)) (! (=> (or (not (= (elem_base r!a) (sl_arr %s))) %s %s) (= (select %s r!a) (select %s r!a))) :pattern ((select %s r!a))))",
				r, c.lt("(elem_idx r!a)", lo), c.le(hi, "(elem_idx r!a)"), newC, oldC, newC))
			c.factUnder(st.pc, fmt.Sprintf("(forall ((r!a Ref)) (! (=> (not (= (root r!a) (root (sl_arr %s)))) (= (select %s r!a) (select %s r!a))) :pattern ((select %s r!a))))", r, newC, oldC, newC))
		} else {
			c.factUnder(st.pc, fmt.Sprintf("(forall ((r!a Ref)) (! (=> (select %s (root r!a)) (or (= (select %s r!a) (select %s r!a)) (= (root r!a) (root (sl_arr %s))))) :pattern ((select %s r!a))))",
				c.hget(pre, "$alloc"), newC, oldC, r, newC))
		}
	}
	if isByteSlice(sT) {
		var xs string
		if xIsStr {
			xs = x.T
		} else {
			xs = c.seqOf(pre, x.T)
		}
		c.factUnder(st.pc, fmt.Sprintf("(= %s (bcat %s %s))", c.seqOf(st.heap, r), c.seqOf(pre, s.T), xs))
	}
	return Val{T: r, S: SSlice, GT: sT}
}

func (c *Ctx) needRoot() {}

func (e *Exec) builtinCopy(common *ssa.CallCommon, args []Val, st *State, pos token.Pos) Val {
	c := e.c
	dT := common.Args[0].Type()
	et := dT.Underlying().(*types.Slice).Elem()
	d, s := args[0], args[1]
	is := string(c.intS())
	srcStr := isStringT(common.Args[1].Type())
	var slen string
	if srcStr {
		slen = fmt.Sprintf("(blen %s)", s.T)
	} else {
		slen = fmt.Sprintf("(sl_len %s)", s.T)
	}
	dlen := fmt.Sprintf("(sl_len %s)", d.T)
	n := c.fresh("copied", c.intS())
	c.fact(fmt.Sprintf("(= %s (ite %s %s %s))", n, c.le(dlen, slen), dlen, slen))
	pre := st.heap
	for _, cell := range e.elemCells(et) {
		comp, _ := cell("x")
		oldC := c.hget(pre, comp)
		newC := c.fresh(comp+"!cp", c.compSortOf(comp))
		st.heap = c.hsetRaw(st.heap, comp, newC)
		_, dst := cell(fmt.Sprintf("(elem (sl_arr %s) %s)", d.T, c.add(fmt.Sprintf("(sl_off %s)", d.T), "i!a")))
		var srcv string
		if srcStr {
			c.needBat()
			srcv = fmt.Sprintf("(bat %s i!a)", s.T)
		} else {
			_, src := cell(fmt.Sprintf("(elem (sl_arr %s) %s)", s.T, c.add(fmt.Sprintf("(sl_off %s)", s.T), "i!a")))
			srcv = fmt.Sprintf("(select %s %s)", oldC, src)
		}
		c.factUnder(st.pc, fmt.Sprintf("(forall ((i!a %s)) (! (=> (and %s %s) (= (select %s %s) %s)) :pattern ((select %s %s))))",
			is, c.le(c.idx(0), "i!a"), c.lt("i!a", n), newC, dst, srcv, newC, dst))
		if !isStruct(et) {
			lo := fmt.Sprintf("(sl_off %s)", d.T)
			hi := c.add(lo, n)
			c.factUnder(st.pc, fmt.Sprintf("(forall ((r!a Ref)) (! (=> (or (not (= (elem_base r!a) (sl_arr %s))) %s %s) (= (select %s r!a) (select %s r!a))) :pattern ((select %s r!a))))",
				d.T, c.lt("(elem_idx r!a)", lo), c.le(hi, "(elem_idx r!a)"), newC, oldC, newC))
			// copy writes only into the allocation of the destination's backing array
			c.factUnder(st.pc, fmt.Sprintf("(forall ((r!a Ref)) (! (=> (not (= (root r!a) (root (sl_arr %s)))) (= (select %s r!a) (select %s r!a))) :pattern ((select %s r!a))))", d.T, newC, oldC, newC))
		}
	}
	_ = big.NewInt
	return Val{T: n, S: c.intS(), GT: types.Typ[types.Int]}
}

func mentionsTracks(x Expr, con *Contract) bool {
	if len(con.Tracks) == 0 {
		return false
	}
	names := map[string]bool{}
	for _, t := range con.Tracks {
		names[t.Name] = true
	}
	var rec func(x Expr) bool
	rec = func(x Expr) bool {
		switch x := x.(type) {
		case *ECount:
			return true
		case *EIdent:
			return names[x.Name]
		case *ECall:
			for _, a := range x.Args {
				if rec(a) {
					return true
				}
			}
		case *EUn:
			return rec(x.X)
		case *EBin:
			return rec(x.X) || rec(x.Y)
		case *ESel:
			return rec(x.X)
		case *EIdx:
			return rec(x.X) || rec(x.I)
		case *EQuant:
			return rec(x.Body)
		case *EIte:
			return rec(x.C) || rec(x.A) || rec(x.B)
		case *EAddr:
			return rec(x.X)
		}
		return false
	}
	return rec(x)
}

// ghostAt performs the ghost assignments the contract attaches to a call site.
func (e *Exec) ghostAt(callee string, ord int, before bool, st *State) {
	c := e.c
	for _, g := range e.con.GhostAts {
		if g.Ordinal != ord || g.Before != before || !(g.Callee == callee || g.Callee == lastSeg(callee)) {
			continue
		}
		sc := e.scope(st.heap, c.entry)
		sc.where = "ghost-at " + g.Name
		if len(e.loopHeadNames) > 0 {
			nm := map[string]Val{}
			for k, v := range e.loopHeadNames {
				nm[k] = v
			}
			for k, v := range e.names {
				nm[k] = v
			}
			sc.names = nm
		}
		sc.evalIdent(g.Name)
		idx := sc.rvalue(sc.eval(g.Idx))
		val := sc.rvalue(sc.eval(g.Val.E))
		st.heap = c.hstore(st.heap, "G:"+g.Name, idx.T, val.T)
	}
}

// checkFnArgs: a function value passed for a parameter that the callee calls under a callback
// contract must be a function known to satisfy that contract (its own contract says
// "refines callback:<callee>.<param>", which is verified against its body, or assumed for externs).
func (e *Exec) checkFnArgs(ci calleeInfo, all []Val, ord int, st *State, pos token.Pos) {
	c := e.c
	if ci.fn == nil {
		return
	}
	ids := []string{shortID(ci.fn.String())}
	if o := ci.fn.Origin(); o != nil {
		ids = append(ids, shortID(o.String()))
	}
	for i, p := range ci.fn.Params {
		if _, ok := p.Type().Underlying().(*types.Signature); !ok || i >= len(all) {
			continue
		}
		key := ""
		for _, id := range ids {
			if _, ok := c.CS.ByID["callback "+id+"."+p.Name()]; ok {
				key = id + "." + p.Name()
			}
		}
		if key == "" {
			continue
		}
		okArg := false
		a := all[i]
		if a.Fn != nil && len(a.Fn.Bindings) == 0 {
			aids := []string{shortID(a.Fn.Fn.String())}
			if strings.HasSuffix(aids[0], "$thunk") {
				// method expression: go/ssa's thunk forwards its arguments to the method unchanged
				aids = append(aids, strings.TrimSuffix(aids[0], "$thunk"))
			}
			if o := a.Fn.Fn.Origin(); o != nil {
				aids = append(aids, shortID(o.String()))
			}
			for _, aid := range aids {
				if acon := c.CS.ByID["func "+aid]; acon != nil {
					for _, r := range acon.Refines {
						if r == "callback:"+key {
							okArg = true
							if acon.Kind == "extern" {
								c.assumed["extern "+acon.ID+" satisfies callback "+key] = true
							}
						}
					}
				}
			}
		}
		goal := "false"
		if okArg {
			goal = "true"
		}
		c.oblige("fnarg", fmt.Sprintf("fnarg[%s]@call%d:%s", p.Name(), ord, lastSeg(ci.name)), st.pc, goal,
			"function passed for "+key+" is declared (and verified) to satisfy that callback contract", e.pos(pos))
	}
}

// ------------------------------------------------------------ panics recovered by deferred functions

// hasRecoveringDefer: some deferred closure registered on this path calls recover().
func (e *Exec) hasRecoveringDefer(st *State) bool {
	if e.fn.Recover == nil {
		return false
	}
	for _, d := range st.defers {
		if d.fnv.Fn != nil && callsRecover(d.fnv.Fn.Fn) {
			return true
		}
	}
	return false
}

func callsRecover(fn *ssa.Function) bool {
	for _, b := range fn.Blocks {
		for _, ins := range b.Instrs {
			if c, ok := ins.(ssa.CallInstruction); ok {
				if bi, ok := c.Common().Value.(*ssa.Builtin); ok && bi.Name() == "recover" {
					return true
				}
			}
		}
	}
	return false
}

// panicPath explores the path on which the callee (contract con) panics at this call site.
func (e *Exec) panicPath(con *Contract, csc *Scope, st *State, ord int, name string, pos token.Pos) {
	c := e.c
	c.compSort["$panic"] = SBool
	pk := c.fresh("panics", SBool)
	ps := State{pc: c.namePC(and(st.pc, pk)), heap: st.heap, defers: st.defers}
	// whatever the callee may modify has happened to an unknown extent
	e.applyModifies(con, csc, &ps)
	ps.heap = c.hset(ps.heap, "$panic", "true")
	saved := e.curBlock
	e.runDefers(&ps)
	c.oblige("panic-effect", fmt.Sprintf("panic-recovered@call%d:%s", ord, lastSeg(name)), ps.pc, not(c.hget(ps.heap, "$panic")),
		"a panic raised inside "+name+" is recovered by a deferred function", e.pos(pos))
	c.factUnder(ps.pc, not(c.hget(ps.heap, "$panic")))
	// control resumes in the recover block (which returns the named results)
	rb := e.fn.Recover
	e.curBlock = rb
	cb := c.curBlk
	c.curBlk = saved.Index // facts of the recover path belong to the paths through the current block
	e.inPanicPath++
	e.execBlock(rb, ps)
	e.inPanicPath--
	c.curBlk = cb
	e.curBlock = saved
	// the normal path continues under "no panic"
	st.pc = c.namePC(and(st.pc, not(pk)))
}

func (e *Exec) mayPanicHere(con *Contract, name string) bool {
	if con.Flags["maypanic"] {
		return true
	}
	for _, m := range e.con.MayPanicCalls {
		if m == name || m == lastSeg(name) {
			return true
		}
	}
	return false
}

// applyClosureArgEffects: a closure of the function under verification that is passed to a callee may
// be run by it any number of times: whatever the closure's contract says it modifies is havocked
// as well (everything, if the closure has no contract).
func (e *Exec) applyClosureArgEffects(all []Val, ci calleeInfo, st *State) {
	c := e.c
	for _, a := range all {
		if a.Fn == nil || !(len(a.Fn.Bindings) > 0 || a.Fn.Fn.Parent() == e.fn) {
			continue
		}
		if ci.fn != nil && ci.fn.String() == "(*sync.Once).Do" {
			continue
		}
		fcon := c.CS.ByID["func "+shortID(a.Fn.Fn.String())]
		if fcon == nil || !fcon.ModSet {
			e.havocAll(st)
			c.noteUncontracted("closure argument " + shortID(a.Fn.Fn.String()))
			continue
		}
		binder := map[string]Val{}
		for i, fv := range a.Fn.Fn.FreeVars {
			if i < len(a.Fn.Bindings) {
				binder[fv.Name()] = a.Fn.Bindings[i]
			}
		}
		fsc := &Scope{e: e, c: c, cur: st.heap, old: st.heap, params: binder, names: map[string]Val{}, pkg: pkgOf(e.fn), tracks: map[string]*trackInfo{}}
		e.applyModifies(fcon, fsc, st)
	}
}
