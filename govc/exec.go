package main

import (
	"fmt"
	"go/token"
	"go/types"
	"math/big"
	"sort"
	"strings"

	"golang.org/x/tools/go/ssa"
)

type deferRec struct {
	instr *ssa.Defer
	flag  string
	args  []Val
	fnv   Val
	recv  Val
}

type State struct {
	pc     string
	heap   *Heap
	defers []deferRec
}

type loopInfo struct {
	header  *ssa.BasicBlock
	ordinal int
	body    map[*ssa.BasicBlock]bool
	spec    *LoopSpec
	backs   []edgeState
	phiVals map[*ssa.Phi]Val
	idxPhi  *ssa.Phi
	countedIdx *ssa.Phi // index of a counted loop (i := 0; i++): bound to $idx when there is no range index
}

type edgeState struct {
	from *ssa.BasicBlock
	st   State
}

type Exec struct {
	c                 *Ctx
	fn                *ssa.Function
	loopHeadNames     map[string]Val
	con               *Contract
	env               map[ssa.Value]Val
	edges             map[*ssa.BasicBlock]map[*ssa.BasicBlock]State // from -> to -> state
	loops             map[*ssa.BasicBlock]*loopInfo
	params            map[string]Val
	nopanic           bool
	callOrd           map[string]int
	curBlock          *ssa.BasicBlock
	curLoop           *loopInfo
	names             map[string]Val // source-level names currently visible (phis, debugrefs)
	panicsOK          string         // entry-state condition under which panics are permitted ("" = never)
	retCount          int
	retPCs            []string
	cells             map[string]Val // named heap-allocated locals
	stableNames       map[ssa.Value]string // value -> source name, for variables with a single SSA value
	locals            []localCell
	captured          []localCell // cells of captured variables (free variables, heap-allocated named locals)
	calleeSharesCells bool
	hasRet            bool
	inPanicPath       int
	stepCount         int
}

type unsupportedErr string

func (e *Exec) unsupported(f string, a ...interface{}) {
	panic(unsupportedErr(fmt.Sprintf(f, a...)))
}

func (e *Exec) pos(p token.Pos) string {
	if !p.IsValid() {
		return ""
	}
	ps := e.c.P.Fset.Position(p)
	return fmt.Sprintf("%s:%d", strings.TrimPrefix(ps.Filename, "/repo/"), ps.Line)
}

// verifyFunction generates all obligations of fn against its contract.
func verifyFunction(P *Program, CS *Contracts, fn *ssa.Function, con *Contract) (c *Ctx, err error) {
	c = newCtx(P, CS, fn, con)
	e := &Exec{c: c, fn: fn, con: con, env: map[ssa.Value]Val{}, edges: map[*ssa.BasicBlock]map[*ssa.BasicBlock]State{},
		loops: map[*ssa.BasicBlock]*loopInfo{}, params: map[string]Val{}, callOrd: map[string]int{}, names: map[string]Val{}}
	e.nopanic = con.Flags["nopanic"]
	defer func() {
		if r := recover(); r != nil {
			if u, ok := r.(unsupportedErr); ok {
				err = fmt.Errorf("unsupported: %s", string(u))
				return
			}
			panic(r)
		}
	}()
	e.run()
	return c, nil
}

// verifyLemma discharges a stand-alone statement (no code): used for composition lemmas over contracts.
func verifyLemma(P *Program, CS *Contracts, con *Contract) (c *Ctx, err error) {
	c = newCtx(P, CS, nil, con)
	defer func() {
		if r := recover(); r != nil {
			if u, ok := r.(unsupportedErr); ok {
				err = fmt.Errorf("unsupported: %s", string(u))
				return
			}
			panic(r)
		}
	}()
	c.compSort["$alloc"] = "(Array Ref Bool)"
	c.compSort["$clk"] = c.intS()
	h := c.newBase()
	c.entry = h
	e := &Exec{c: c, con: con, env: map[ssa.Value]Val{}, params: map[string]Val{}, names: map[string]Val{}}
	var pkg *types.Package
	for _, p := range P.Prog.AllPackages() {
		if p.Pkg.Path() == zapMod+"/zapcore" {
			pkg = p.Pkg
		}
	}
	sc := &Scope{e: e, c: c, cur: h, old: h, params: map[string]Val{}, names: map[string]Val{}, pkg: pkg, tracks: map[string]*trackInfo{}}
	for _, r := range con.Requires {
		c.fact(e.evalBool(sc, r))
	}
	for i, s := range con.Ensures {
		c.oblige("lemma", fmt.Sprintf("statement[%d]", i+1), "true", e.evalBool(sc, s), "lemma: "+s.Src, fmt.Sprintf("%s:%d", strings.TrimPrefix(con.File, "/repo/"), con.Line))
	}
	return c, nil
}

func (e *Exec) run() {
	c := e.c
	fn := e.fn
	if len(fn.Blocks) == 0 {
		e.unsupported("function %s has no body", fn)
	}
	c.compSort["$alloc"] = "(Array Ref Bool)"
	c.compSort["$clk"] = c.intS()
	entry := c.newBase()
	c.entry = entry
	c.fact(fmt.Sprintf("(not (select %s nil))", c.hget(entry, "$alloc")))
	// parameters
	for _, p := range fn.Params {
		v := c.freshVal("p_"+p.Name(), p.Type())
		e.env[p] = v
		e.params[p.Name()] = v
		c.fact(c.rangeFact(v.T, p.Type(), 0))
		c.fact(c.allocFact(entry, v))
	}
	for i, fv := range fn.FreeVars {
		v := c.freshVal("fv_"+fv.Name(), fv.Type())
		e.env[fv] = v
		e.params[fv.Name()] = v
		c.fact(c.allocFact(entry, v))
		if v.S == SRef {
			c.fact(fmt.Sprintf("(not (= %s nil))", v.T)) // a captured variable's cell always exists
			if ct := deref(fv.Type()); !isStruct(ct) && !isArray(ct) {
				e.captured = append(e.captured, localCell{c.cellComp(ct), v.T})
			}
		}
		_ = i
	}
	e.setupTracks()
	e.checkRefinesPre(entry)
	// implicit precondition: the receiver of a method of a type with a declared invariant is valid
	if fn.Signature.Recv() != nil && len(fn.Params) > 0 {
		if inv, _ := e.typeInvOf(fn.Params[0].Type(), e.env[fn.Params[0]], entry); inv != "" {
			c.fact(inv)
		}
	}
	// requires
	sc := e.scope(entry, entry)
	for _, r := range e.con.Requires {
		t := e.evalBool(sc, r)
		c.fact(t)
	}
	for _, r := range e.con.Assumes {
		c.fact(e.evalBool(sc, r))
		if len(e.con.Refines) > 0 {
			c.assumed["assumed precondition of "+e.con.ID+" (not established by callers through "+strings.Join(e.con.Refines, ", ")+"): "+r.Src] = true
		}
	}
	if len(e.con.Panics) > 0 {
		var ps []string
		for _, p := range e.con.Panics {
			ps = append(ps, e.evalBool(sc, p))
		}
		e.panicsOK = or(ps...)
	}
	// vacuity: requires satisfiable
	o := c.oblige("vacuity", "requires.sat", "true", "false", "preconditions are satisfiable (expect sat)", e.pos(fn.Pos()))
	o.Expect = "sat"

	e.findStableNames()
	e.findLoops()
	order := e.topo()
	// ancestor sets over the forward (loop-cut) CFG
	c.anc = map[int]map[int]bool{}
	for _, b := range order {
		set := map[int]bool{b.Index: true}
		for _, p := range b.Preds {
			if e.isBackEdge(p, b) {
				continue
			}
			for a := range c.anc[p.Index] {
				set[a] = true
			}
		}
		c.anc[b.Index] = set
	}
	st0 := State{pc: "true", heap: entry}
	for _, b := range order {
		var st State
		c.curBlk = b.Index
		if b == fn.Blocks[0] {
			st = st0
		} else {
			var ok bool
			st, ok = e.joinState(b)
			if !ok {
				continue // unreachable
			}
		}
		if b == fn.Recover {
			continue
		}
		e.curBlock = b
		c.curBlk = b.Index
		if li := e.loops[b]; li != nil {
			st = e.enterLoop(li, st)
		}
		e.execBlock(b, st)
	}
	// back edges
	var hs []*loopInfo
	for _, li := range e.loops {
		hs = append(hs, li)
	}
	sort.Slice(hs, func(i, j int) bool { return hs[i].ordinal < hs[j].ordinal })
	for _, li := range hs {
		e.closeLoop(li)
	}
	c.curBlk = -1
	if e.hasRet {
		o := c.oblige("vacuity", "return.reachable", "true", "false", "some return is reachable (expect sat)", e.pos(fn.Pos()))
		o.Expect = "sat"
		o.Goal = not(or(e.retPCs...))
		// consistency of everything assumed along the way (contracts of callees, axioms),
		// with the quantified facts included: "false" must not be derivable at a return
		if len(c.assumed) > 0 || len(e.callOrd) > 0 || len(e.loops) > 0 || len(e.con.Requires) > 0 {
			o2 := c.oblige("vacuity", "assumptions.consistent", or(e.retPCs...), "false", "the facts assumed on the way to a return (callee contracts, axioms) are not contradictory (unsat = vacuous proof)", e.pos(fn.Pos()))
			o2.Expect = "consistent"
		}
	}
}

var _ = big.NewInt

func (c *Ctx) freshVal(prefix string, t types.Type) Val {
	s := c.sortOf(t)
	if tt, ok := t.(*types.Tuple); ok {
		var vs []Val
		for i := 0; i < tt.Len(); i++ {
			vs = append(vs, c.freshVal(fmt.Sprintf("%s_%d", prefix, i), tt.At(i).Type()))
		}
		return Val{Tuple: vs, GT: t, S: "Tuple"}
	}
	n := c.fresh(prefix, s)
	return Val{T: n, S: s, GT: t}
}

// allocFact: a pointer-like value is nil or allocated.
func (c *Ctx) allocFact(h *Heap, v Val) string {
	if v.GT == nil {
		return "true"
	}
	switch v.GT.Underlying().(type) {
	case *types.Pointer, *types.Map, *types.Chan:
		return fmt.Sprintf("(or (= %s nil) (select %s (root %s)))", v.T, c.hget(h, "$alloc"), v.T)
	case *types.Slice:
		return fmt.Sprintf("(or (= (sl_arr %s) nil) (select %s (root (sl_arr %s))))", v.T, c.hget(h, "$alloc"), v.T)
	}
	return "true"
}

// ------------------------------------------------------------ CFG helpers

func (e *Exec) isBackEdge(from, to *ssa.BasicBlock) bool {
	return to.Dominates(from)
}

func (e *Exec) findLoops() {
	var headers []*ssa.BasicBlock
	for _, b := range e.fn.Blocks {
		for _, s := range b.Succs {
			if e.isBackEdge(b, s) {
				if e.loops[s] == nil {
					e.loops[s] = &loopInfo{header: s, body: map[*ssa.BasicBlock]bool{s: true}, phiVals: map[*ssa.Phi]Val{}}
					headers = append(headers, s)
				}
				// natural loop body
				li := e.loops[s]
				var stack []*ssa.BasicBlock
				if !li.body[b] {
					li.body[b] = true
					stack = append(stack, b)
				}
				for len(stack) > 0 {
					x := stack[len(stack)-1]
					stack = stack[:len(stack)-1]
					for _, p := range x.Preds {
						if !li.body[p] {
							li.body[p] = true
							stack = append(stack, p)
						}
					}
				}
			}
		}
	}
	sort.Slice(headers, func(i, j int) bool { return headers[i].Index < headers[j].Index })
	for i, h := range headers {
		li := e.loops[h]
		li.ordinal = i + 1
		li.spec = e.con.Loops[i+1]
		if li.spec == nil {
			e.unsupported("loop %d (block %d, %s) has no invariant", i+1, h.Index, h.Comment)
		}
		for _, ins := range h.Instrs {
			if phi, ok := ins.(*ssa.Phi); ok && phi.Comment == "rangeindex" {
				li.idxPhi = phi
			}
		}
		if li.idxPhi == nil {
			// a counted loop "for i := 0; ...; i++": its index plays the part of $idx as well, so that an invariant
			// written for "for i := range s" survives the (equivalent) rewrite into a counted loop and back
			for _, ins := range h.Instrs {
				phi, ok := ins.(*ssa.Phi)
				if !ok {
					break
				}
				if b, ok := phi.Type().Underlying().(*types.Basic); !ok || b.Info()&types.IsInteger == 0 {
					continue
				}
				zero, inc := false, false
				for _, ed := range phi.Edges {
					if k, ok := ed.(*ssa.Const); ok && k.Value != nil && k.Value.String() == "0" {
						zero = true
					}
					if bo, ok := ed.(*ssa.BinOp); ok && bo.Op == token.ADD && bo.X == ssa.Value(phi) {
						if k, ok := bo.Y.(*ssa.Const); ok && k.Value != nil && k.Value.String() == "1" {
							inc = true
						}
					}
				}
				if zero && inc && len(phi.Edges) == 2 {
					li.countedIdx = phi
					break
				}
			}
		}
	}
	for n := range e.con.Loops {
		if n < 1 || n > len(headers) {
			e.unsupported("contract names loop %d but the function has %d loops", n, len(headers))
		}
	}
}

func (e *Exec) topo() []*ssa.BasicBlock {
	visited := map[*ssa.BasicBlock]bool{}
	var post []*ssa.BasicBlock
	var dfs func(b *ssa.BasicBlock)
	dfs = func(b *ssa.BasicBlock) {
		visited[b] = true
		for i := len(b.Succs) - 1; i >= 0; i-- {
			s := b.Succs[i]
			if e.isBackEdge(b, s) || visited[s] {
				continue
			}
			dfs(s)
		}
		post = append(post, b)
	}
	dfs(e.fn.Blocks[0])
	for i, j := 0, len(post)-1; i < j; i, j = i+1, j-1 {
		post[i], post[j] = post[j], post[i]
	}
	return post
}

func (e *Exec) setEdge(from, to *ssa.BasicBlock, st State) {
	if e.isBackEdge(from, to) {
		li := e.loops[to]
		li.backs = append(li.backs, edgeState{from, st})
		return
	}
	m := e.edges[from]
	if m == nil {
		m = map[*ssa.BasicBlock]State{}
		e.edges[from] = m
	}
	if old, ok := m[to]; ok {
		// two edges between the same blocks (if with identical targets)
		st = State{pc: or(old.pc, st.pc), heap: st.heap, defers: st.defers}
	}
	m[to] = st
}

// joinState merges the forward in-edges of b; also binds non-header phis.
func (e *Exec) joinState(b *ssa.BasicBlock) (State, bool) {
	c := e.c
	var conds []string
	var hs []*Heap
	var sts []State
	var preds []int
	for i, p := range b.Preds {
		if e.isBackEdge(p, b) {
			continue
		}
		st, ok := e.edges[p][b]
		if !ok {
			continue
		}
		conds = append(conds, st.pc)
		hs = append(hs, st.heap)
		sts = append(sts, st)
		preds = append(preds, i)
	}
	if len(sts) == 0 {
		return State{}, false
	}
	pc := c.namePC(or(conds...))
	heap := c.hmerge(conds, hs)
	// defers: union by instruction
	var defers []deferRec
	seen := map[*ssa.Defer]int{}
	for _, st := range sts {
		for _, d := range st.defers {
			if j, ok := seen[d.instr]; ok {
				if defers[j].flag != d.flag {
					defers[j].flag = or(defers[j].flag, d.flag)
				}
				continue
			}
			seen[d.instr] = len(defers)
			defers = append(defers, d)
		}
	}
	// phis (for loop headers these are the entry values; enterLoop replaces them)
	for _, ins := range b.Instrs {
		phi, ok := ins.(*ssa.Phi)
		if !ok {
			break
		}
		var vals []Val
		for _, pi := range preds {
			vals = append(vals, e.val(phi.Edges[pi]))
		}
		e.env[phi] = e.iteVals(conds, vals, phi.Type(), "phi_"+phi.Comment)
	}
	return State{pc: pc, heap: heap, defers: defers}, true
}

func (c *Ctx) namePC(t string) string {
	if t == "true" || t == "false" || !strings.HasPrefix(t, "(") {
		return t
	}
	n := c.fresh("pc", SBool)
	c.fact(fmt.Sprintf("(= %s %s)", n, t))
	return n
}

func (e *Exec) iteVals(conds []string, vals []Val, t types.Type, prefix string) Val {
	c := e.c
	if len(vals) == 1 {
		return vals[0]
	}
	if tt, ok := t.(*types.Tuple); ok {
		var out []Val
		for i := 0; i < tt.Len(); i++ {
			var vs []Val
			for _, v := range vals {
				vs = append(vs, v.Tuple[i])
			}
			out = append(out, e.iteVals(conds, vs, tt.At(i).Type(), prefix))
		}
		return Val{Tuple: out, GT: t, S: "Tuple"}
	}
	same := true
	for _, v := range vals {
		if v.Loc != nil {
			e.unsupported("phi of scalar-cell addresses")
		}
		if v.T != vals[0].T {
			same = false
		}
	}
	if same {
		return vals[0]
	}
	s := c.sortOf(t)
	for i := range vals {
		vals[i] = e.coerce(vals[i], t)
	}
	x := vals[len(vals)-1].T
	for i := len(vals) - 2; i >= 0; i-- {
		if vals[i].T == x {
			continue
		}
		x = fmt.Sprintf("(ite %s %s %s)", conds[i], vals[i].T, x)
	}
	n := c.fresh(prefix, s)
	c.fact(fmt.Sprintf("(= %s %s)", n, x))
	out := Val{T: n, S: s, GT: t}
	// keep static function identity if all agree
	if vals[0].Fn != nil {
		all := true
		for _, v := range vals {
			if v.Fn == nil || v.Fn.Fn != vals[0].Fn.Fn {
				all = false
			}
		}
		if all && len(vals[0].Fn.Bindings) == 0 {
			out.Fn = vals[0].Fn
		}
	}
	return out
}

// ------------------------------------------------------------ loops

func (e *Exec) loopNames(li *loopInfo, phiVal func(*ssa.Phi) Val) map[string]Val {
	names := map[string]Val{}
	for k, v := range e.names {
		names[k] = v
	}
	for _, ins := range li.header.Instrs {
		phi, ok := ins.(*ssa.Phi)
		if !ok {
			break
		}
		v := phiVal(phi)
		if phi.Comment != "" && phi.Comment != "rangeindex" && phi.Comment != "rangeiter" {
			names[phi.Comment] = v
		}
		if phi == li.idxPhi {
			one := e.c.intLit(big.NewInt(1), phi.Type())
			names["$idx"] = Val{T: e.c.arith("+", v, Val{T: one, S: v.S, GT: v.GT}, phi.Type()), S: v.S, GT: phi.Type()}
		}
		if li.idxPhi == nil && phi == li.countedIdx {
			names["$idx"] = v
		}
	}
	return names
}

func (e *Exec) enterLoop(li *loopInfo, st State) State {
	c := e.c
	// 1. invariant holds on entry
	names := e.loopNames(li, func(p *ssa.Phi) Val { return e.env[p] })
	sc := e.scope(st.heap, c.entry)
	sc.names = names
	for i, inv := range li.spec.Inv {
		g := e.evalBool(sc, inv)
		c.oblige("inv.init", fmt.Sprintf("loop%d.inv.init[%d]", li.ordinal, i+1), st.pc, g, "loop invariant holds on entry: "+inv.Src, e.pos(li.header.Instrs[0].Pos()))
	}
	// 2. havoc
	comps, all := e.loopModifies(li)
	heap := st.heap
	if all {
		old := heap
		heap = c.hhavocExcept(old, func(n string) bool { return false })
		c.allocMonotone(old, heap)
	} else if comps["$user"] {
		// user code may run in the loop: everything it can reach changes, plus the listed components
		old := heap
		heap = c.hhavocExcept(old, func(n string) bool { return e.isZapPrivateComp(n) && !comps[n] })
		c.allocMonotone(old, heap)
	} else {
		var names []string
		for n := range comps {
			names = append(names, n)
		}
		sort.Strings(names)
		for _, n := range names {
			if _, ok := c.compSort[n]; !ok {
				continue
			}
			if n == "$alloc" {
				old := heap
				heap = c.hhavocComp(heap, n)
				c.allocMonotone(old, heap)
				continue
			}
			heap = c.hhavocComp(heap, n)
		}
	}
	for _, ins := range li.header.Instrs {
		phi, ok := ins.(*ssa.Phi)
		if !ok {
			break
		}
		v := c.freshVal("loop_"+phi.Comment, phi.Type())
		c.fact(c.rangeFact(v.T, phi.Type(), 0))
		c.fact(c.allocFact(heap, v))
		e.env[phi] = v
		li.phiVals[phi] = v
		if phi.Comment != "" && phi.Comment != "rangeindex" && phi.Comment != "rangeiter" {
			if e.loopHeadNames == nil {
				e.loopHeadNames = map[string]Val{}
			}
			e.loopHeadNames[phi.Comment] = v // for ghost code inside the body: the variable's value at the loop head of this iteration
		}
	}
	// call-log counters never decrease below zero
	var tnames []string
	for n := range c.tracks {
		tnames = append(tnames, n)
	}
	sort.Strings(tnames)
	for _, n := range tnames {
		c.fact(c.le(c.idx(0), c.hget(heap, c.tracks[n].comp("n"))))
	}
	// 3. assume invariant
	names = e.loopNames(li, func(p *ssa.Phi) Val { return e.env[p] })
	sc = e.scope(heap, c.entry)
	sc.names = names
	for _, inv := range li.spec.Inv {
		c.factUnder(st.pc, e.evalBool(sc, inv))
	}
	return State{pc: st.pc, heap: heap, defers: st.defers}
}

func (c *Ctx) allocMonotone(old, new *Heap) {
	c.fact(fmt.Sprintf("(forall ((r Ref)) (! (=> (select %s r) (select %s r)) :pattern ((select %s r))))", c.hget(old, "$alloc"), c.hget(new, "$alloc"), c.hget(new, "$alloc")))
	c.fact(fmt.Sprintf("(not (select %s nil))", c.hget(new, "$alloc")))
}

func (e *Exec) closeLoop(li *loopInfo) {
	c := e.c
	if len(li.backs) == 0 {
		return
	}
	// one obligation per invariant clause and back edge (small queries; a single back edge keeps
	// the plain name)
	for bi, b := range li.backs {
		c.curBlk = b.from.Index
		nObl := len(c.obls)
		var edgeIdx int
		for i, p := range li.header.Preds {
			if p == b.from {
				edgeIdx = i
				break
			}
		}
		phiVal := func(phi *ssa.Phi) Val { return e.val(phi.Edges[edgeIdx]) }
		names := e.loopNames(li, phiVal)
		sc := e.scope(b.st.heap, c.entry)
		sc.names = names
		for i, inv := range li.spec.Inv {
			g := e.evalBool(sc, inv)
			name := fmt.Sprintf("loop%d.inv.keep[%d]", li.ordinal, i+1)
			if len(li.backs) > 1 {
				name = fmt.Sprintf("%s@edge%d", name, bi+1)
			}
			c.oblige("inv.keep", name, b.st.pc, g, "loop invariant preserved: "+inv.Src, e.pos(li.header.Instrs[0].Pos()))
		}
		for _, o := range c.obls[nObl:] {
			o.Blocks = []int{b.from.Index}
		}
	}
}

// loopModifies computes the set of heap components possibly written in the loop.
func (e *Exec) loopModifies(li *loopInfo) (map[string]bool, bool) {
	c := e.c
	comps := map[string]bool{}
	all := false
	for b := range li.body {
		for _, ins := range b.Instrs {
			switch x := ins.(type) {
			case *ssa.Store:
				e.addrComps(x.Addr, comps)
			case *ssa.MapUpdate:
				mt := x.Map.Type()
				comps[c.mapDomComp(mt)] = true
				comps[c.mapValComp(mt)] = true
			case *ssa.Alloc, *ssa.MakeSlice, *ssa.MakeMap, *ssa.MakeChan, *ssa.MakeClosure:
				comps["$alloc"] = true
				if a, ok := x.(*ssa.Alloc); ok {
					e.typeComps(deref(a.Type()), comps)
				}
				if ms, ok := x.(*ssa.MakeSlice); ok {
					et := ms.Type().Underlying().(*types.Slice).Elem()
					if isStruct(et) {
						e.typeComps(et, comps)
					}
				}
			case *ssa.Send, *ssa.Select, *ssa.Go, *ssa.RunDefers:
				all = true
			case *ssa.Defer:
				all = true
			case ssa.CallInstruction:
				if e.callModifies(x.Common(), comps) {
					all = true
				}
			}
		}
	}
	if li.spec != nil {
		for _, m := range li.spec.Modifies {
			comps[m] = true
		}
	}
	return comps, all
}

func deref(t types.Type) types.Type {
	if p, ok := t.Underlying().(*types.Pointer); ok {
		return p.Elem()
	}
	return t
}

func (c *Ctx) elemCompFor(t types.Type) string {
	if isStruct(t) {
		return "$none"
	}
	return c.elemComp(t)
}

// typeComps adds every component that stores part of a value of type t.
func (e *Exec) typeComps(t types.Type, comps map[string]bool) {
	c := e.c
	if st, ok := t.Underlying().(*types.Struct); ok {
		for i := 0; i < st.NumFields(); i++ {
			ft := st.Field(i).Type()
			if isStruct(ft) {
				e.typeComps(ft, comps)
			} else if at, ok := ft.Underlying().(*types.Array); ok {
				e.typeComps(at.Elem(), comps)
				if !isStruct(at.Elem()) {
					comps[c.elemComp(at.Elem())] = true
				}
			} else {
				comps[c.fieldComp(t, i)] = true
			}
		}
		return
	}
	if at, ok := t.Underlying().(*types.Array); ok {
		e.typeComps(at.Elem(), comps)
		if !isStruct(at.Elem()) {
			comps[c.elemComp(at.Elem())] = true
		}
		return
	}
	comps[c.cellComp(t)] = true
}

func (e *Exec) addrComps(addr ssa.Value, comps map[string]bool) {
	c := e.c
	switch a := addr.(type) {
	case *ssa.FieldAddr:
		st := deref(a.X.Type())
		ft := st.Underlying().(*types.Struct).Field(a.Field).Type()
		if isStruct(ft) || isArray(ft) {
			e.typeComps(ft, comps)
		} else {
			comps[c.fieldComp(st, a.Field)] = true
		}
	case *ssa.IndexAddr:
		var et types.Type
		switch u := a.X.Type().Underlying().(type) {
		case *types.Slice:
			et = u.Elem()
		case *types.Pointer:
			et = u.Elem().Underlying().(*types.Array).Elem()
		}
		if isStruct(et) || isArray(et) {
			e.typeComps(et, comps)
		} else {
			comps[c.elemComp(et)] = true
		}
	default:
		t := deref(addr.Type())
		e.typeComps(t, comps)
		if !isStruct(t) && !isArray(t) {
			// a *T may also point into a slice element or a field; be conservative for elements
			comps[c.elemComp(t)] = true
		}
	}
}

// ------------------------------------------------------------ values

func (e *Exec) val(v ssa.Value) Val {
	c := e.c
	if x, ok := e.env[v]; ok {
		return x
	}
	switch k := v.(type) {
	case *ssa.Const:
		return c.constVal(k)
	case *ssa.Global:
		return c.globalRef(k)
	case *ssa.Function:
		return c.fnConst(k)
	case *ssa.Builtin:
		return Val{T: "builtin:" + k.Name(), GT: k.Type()}
	}
	e.unsupported("value %s (%T) used before definition (block order?)", v.Name(), v)
	return Val{}
}

func (c *Ctx) globalRef(g *ssa.Global) Val {
	n := q("g:" + shortPath(g.Pkg.Pkg.Path()) + "." + g.Name())
	if !c.globals[n] {
		c.globals[n] = true
		c.decls = append(c.decls, fmt.Sprintf("(declare-const %s Ref)", n))
		c.decls = append(c.decls, fmt.Sprintf("(assert (not (= %s nil)))", n))
		c.decls = append(c.decls, fmt.Sprintf("(assert (and (= (root %s) %s) (select %s %s)))", n, n, c.hget(c.entry, "$alloc"), n))
		var others []string
		for o := range c.globals {
			if o != n {
				others = append(others, o)
			}
		}
		sort.Strings(others)
		for _, o := range others {
			c.decls = append(c.decls, fmt.Sprintf("(assert (not (= %s %s)))", n, o))
		}
		for _, o := range c.gconstObjs {
			c.decls = append(c.decls, fmt.Sprintf("(assert (not (= %s %s)))", n, o))
		}
	}
	return Val{T: n, S: SRef, GT: g.Type()}
}

func (c *Ctx) fnConst(f *ssa.Function) Val {
	n := q("fn:" + shortID(f.String()))
	if !c.fnConsts[n] {
		c.fnConsts[n] = true
		c.decls = append(c.decls, fmt.Sprintf("(declare-const %s Fn)", n))
		c.decls = append(c.decls, fmt.Sprintf("(assert (not (= %s nilfn)))", n))
		var others []string
		for o := range c.fnConsts {
			if o != n {
				others = append(others, o)
			}
		}
		sort.Strings(others)
		for _, o := range others {
			c.decls = append(c.decls, fmt.Sprintf("(assert (not (= %s %s)))", n, o))
		}
	}
	return Val{T: n, S: SFn, GT: f.Type(), Fn: &FnVal{Fn: f}}
}

func (e *Exec) coerce(v Val, t types.Type) Val {
	if v.Lit != nil {
		return Val{T: e.c.intLit(v.Lit, t), S: e.c.sortOf(t), GT: t}
	}
	return v
}

// loadStruct reads a struct value from the heap.
func (c *Ctx) loadStruct(h *Heap, ref string, t types.Type) string {
	st := t.Underlying().(*types.Struct)
	s := c.structSort(t)
	if st.NumFields() == 0 {
		return "mk_" + string(s)
	}
	var fs []string
	for i := 0; i < st.NumFields(); i++ {
		ft := st.Field(i).Type()
		if isStruct(ft) {
			fs = append(fs, c.loadStruct(h, c.subRef(t, i, ref), ft))
		} else if isArray(ft) {
			if ft.Underlying().(*types.Array).Len() == 0 {
				fs = append(fs, c.zero(ft)) // a zero-length array has exactly one value
			} else {
				fs = append(fs, c.fresh("arrval", c.sortOf(ft)))
			}
		} else {
			fs = append(fs, c.hsel(h, c.fieldComp(t, i), ref))
		}
	}
	return fmt.Sprintf("(mk_%s %s)", s, strings.Join(fs, " "))
}

func (c *Ctx) storeStruct(h *Heap, ref string, t types.Type, val string) *Heap {
	st := t.Underlying().(*types.Struct)
	for i := 0; i < st.NumFields(); i++ {
		ft := st.Field(i).Type()
		fv := fmt.Sprintf("(%s %s)", c.selName(t, i), val)
		if isStruct(ft) {
			h = c.storeStruct(h, c.subRef(t, i, ref), ft, fv)
		} else if isArray(ft) {
			// array contents are not tracked by value
		} else {
			h = c.hstore(h, c.fieldComp(t, i), ref, fv)
		}
	}
	return h
}

// load reads through a pointer value.
func (e *Exec) load(h *Heap, p Val, t types.Type) Val {
	c := e.c
	if p.Loc != nil {
		v := Val{T: c.hsel(h, p.Loc.Comp, p.Loc.Ref), S: c.sortOf(t), GT: t}
		return v
	}
	if isStruct(t) {
		return Val{T: c.loadStruct(h, p.T, t), S: c.sortOf(t), GT: t}
	}
	if isArray(t) {
		return Val{T: c.fresh("arrval", c.sortOf(t)), S: c.sortOf(t), GT: t}
	}
	return Val{T: c.hsel(h, c.cellComp(t), p.T), S: c.sortOf(t), GT: t}
}

func (e *Exec) store(h *Heap, p Val, v Val, t types.Type) *Heap {
	c := e.c
	v = e.coerce(v, t)
	if p.Loc != nil {
		return c.hstore(h, p.Loc.Comp, p.Loc.Ref, v.T)
	}
	if isStruct(t) {
		return c.storeStruct(h, p.T, t, v.T)
	}
	if isArray(t) {
		return h
	}
	return c.hstore(h, c.cellComp(t), p.T, v.T)
}

// ------------------------------------------------------------ blocks

func (e *Exec) safety(kind string, st *State, goal string, descr string, p token.Pos) {
	if e.nopanic {
		e.c.oblige("safety."+kind, "safety."+kind+"@"+e.srcKey(p), st.pc, goal, descr, e.pos(p))
	}
	// after the instruction the condition holds (otherwise it panicked)
	e.c.factUnder(st.pc, goal)
}

// srcKey gives a stable, line-free key for an instruction position: ordinal among same-kind obligations.
func (e *Exec) srcKey(p token.Pos) string {
	return "b" + fmt.Sprint(e.curBlock.Index)
}

func (e *Exec) execBlock(b *ssa.BasicBlock, st State) {
	c := e.c
	for _, ins := range b.Instrs {
		c.curPC = st.pc
		switch x := ins.(type) {
		case *ssa.Phi:
			// bound by joinState / enterLoop
		case *ssa.DebugRef:
			// single-assignment source variables become nameable in invariants and asserts
			if n, ok := e.stableNames[x.X]; ok {
				if v, ok := e.env[x.X]; ok {
					e.names[n] = v
				}
			}
		case *ssa.Alloc:
			e.execAlloc(x, &st)
		case *ssa.FieldAddr:
			base := e.val(x.X)
			stT := deref(x.X.Type())
			e.safety("nil", &st, not(fmt.Sprintf("(= %s nil)", base.T)), "nil dereference in field address", x.Pos())
			ft := stT.Underlying().(*types.Struct).Field(x.Field).Type()
			if isStruct(ft) || isArray(ft) {
				e.env[x] = Val{T: c.subRef(stT, x.Field, base.T), S: SRef, GT: x.Type()}
			} else {
				e.env[x] = Val{Loc: &Loc{Comp: c.fieldComp(stT, x.Field), Ref: base.T, T: ft}, GT: x.Type(), S: SRef}
			}
		case *ssa.Field:
			sv := e.val(x.X)
			ft := x.X.Type().Underlying().(*types.Struct).Field(x.Field).Type()
			e.env[x] = Val{T: fmt.Sprintf("(%s %s)", c.selName(x.X.Type(), x.Field), sv.T), S: c.sortOf(ft), GT: ft}
		case *ssa.IndexAddr:
			e.execIndexAddr(x, &st)
		case *ssa.Index:
			e.execIndex(x, &st)
		case *ssa.UnOp:
			e.execUnOp(x, &st)
		case *ssa.BinOp:
			a, bb := e.val(x.X), e.val(x.Y)
			e.env[x] = e.named(e.binop(x.Op, a, bb, x.X.Type(), x.Type(), &st, x.Pos()), "v")
		case *ssa.Store:
			e.guardCheck(x.Addr, true, &st, x.Pos())
			e.stableStoreCheck(x.Addr, &st, x.Pos())
			e.immutableStoreCheck(x.Addr, &st, x.Pos())
			p := e.val(x.Addr)
			if p.Loc == nil {
				e.safety("nil", &st, not(fmt.Sprintf("(= %s nil)", p.T)), "nil dereference in store", x.Pos())
			}
			st.heap = e.store(st.heap, p, e.val(x.Val), deref(x.Addr.Type()))
		case *ssa.Call:
			r := e.call(x, x.Common(), &st)
			e.env[x] = r
			e.stepInvs(&st, x.Pos())
		case *ssa.Extract:
			t := e.val(x.Tuple)
			if len(t.Tuple) <= x.Index {
				e.unsupported("extract from non-tuple")
			}
			e.env[x] = t.Tuple[x.Index]
		case *ssa.MakeInterface:
			v := e.val(x.X)
			if inv, ti := e.typeInvOf(x.X.Type(), v, st.heap); ti != nil {
				c.oblige("typeinv", fmt.Sprintf("typeinv.make[%s]@b%d", ti.Type, e.curBlock.Index), st.pc, inv,
					"type invariant of "+ti.Type+" holds where the value becomes reachable through an interface: "+ti.C.Src, e.pos(x.Pos()))
			}
			tag := c.typeTag(x.X.Type())
			e.env[x] = Val{T: fmt.Sprintf("(mk_Iface %d %s)", tag, c.box(v)), S: SIface, GT: x.Type()}
		case *ssa.ChangeInterface:
			v := e.val(x.X)
			v.GT = x.Type()
			e.env[x] = v
		case *ssa.ChangeType:
			v := e.val(x.X)
			if c.sortOf(x.Type()) != v.S && v.Loc == nil {
				e.unsupported("ChangeType between different sorts %s -> %s", v.S, c.sortOf(x.Type()))
			}
			v.GT = x.Type()
			e.env[x] = v
		case *ssa.Convert:
			e.env[x] = e.named(e.convert(e.val(x.X), x.X.Type(), x.Type(), &st), "cv")
		case *ssa.TypeAssert:
			e.execTypeAssert(x, &st)
		case *ssa.Slice:
			e.execSlice(x, &st)
		case *ssa.MakeSlice:
			e.execMakeSlice(x, &st)
		case *ssa.MakeClosure:
			fn := x.Fn.(*ssa.Function)
			var bs []Val
			for _, bv := range x.Bindings {
				bs = append(bs, e.val(bv))
			}
			n := c.fresh("closure", SFn)
			c.fact(fmt.Sprintf("(not (= %s nilfn))", n))
			e.env[x] = Val{T: n, S: SFn, GT: x.Type(), Fn: &FnVal{Fn: fn, Bindings: bs}}
		case *ssa.MakeMap:
			r := c.fresh("map", SRef)
			e.allocNew(&st, r)
			mt := x.Type()
			dom := c.mapDomComp(mt)
			kt := mt.Underlying().(*types.Map).Key()
			st.heap = c.hstore(st.heap, dom, r, fmt.Sprintf("((as const (Array %s Bool)) false)", c.sortOf(kt)))
			e.env[x] = Val{T: r, S: SRef, GT: mt}
		case *ssa.MakeChan:
			r := c.fresh("chan", SRef)
			e.allocNew(&st, r)
			c.compSort["$closed"] = "(Array Ref Bool)"
			st.heap = c.hstore(st.heap, "$closed", r, "false")
			e.env[x] = Val{T: r, S: SRef, GT: x.Type()}
		case *ssa.Lookup:
			e.execLookup(x, &st)
		case *ssa.MapUpdate:
			m := e.val(x.Map)
			e.safety("nilmap", &st, not(fmt.Sprintf("(= %s nil)", m.T)), "assignment to entry in nil map", x.Pos())
			mt := x.Map.Type()
			mm := mt.Underlying().(*types.Map)
			k := e.coerce(e.val(x.Key), mm.Key())
			v := e.coerce(e.val(x.Value), mm.Elem())
			dom, vals := c.mapDomComp(mt), c.mapValComp(mt)
			st.heap = c.hstore(st.heap, dom, m.T, fmt.Sprintf("(store %s %s true)", c.hsel(st.heap, dom, m.T), k.T))
			st.heap = c.hstore(st.heap, vals, m.T, fmt.Sprintf("(store %s %s %s)", c.hsel(st.heap, vals, m.T), k.T, v.T))
		case *ssa.Range:
			e.env[x] = Val{T: "range", GT: x.X.Type(), Tuple: []Val{e.val(x.X)}}
		case *ssa.Next:
			e.execNext(x, &st)
		case *ssa.Defer:
			e.execDefer(x, &st)
		case *ssa.RunDefers:
			if _, ok := c.compSort["$panic"]; ok && e.inPanicPath == 0 {
				st.heap = c.hset(st.heap, "$panic", "false")
			}
			e.runDefers(&st)
		case *ssa.Go:
			e.execGo(x, &st)
		case *ssa.Send:
			ch := e.val(x.Chan)
			e.noLockCheck(&st, "channel send", x.Pos())
			e.ghostEvent("send", ch, &st)
		case *ssa.Select:
			e.execSelect(x, &st)
		case *ssa.If:
			cond := e.val(x.Cond).T
			e.setEdge(b, b.Succs[0], State{pc: c.namePC(and(st.pc, cond)), heap: st.heap, defers: st.defers})
			e.setEdge(b, b.Succs[1], State{pc: c.namePC(and(st.pc, not(cond))), heap: st.heap, defers: st.defers})
			return
		case *ssa.Jump:
			e.setEdge(b, b.Succs[0], st)
			return
		case *ssa.Return:
			e.execReturn(x, &st)
			return
		case *ssa.Panic:
			e.execPanic(x, &st)
			return
		default:
			e.unsupported("instruction %T: %s", ins, ins)
		}
	}
}

// named introduces a constant for a compound term (keeps terms small and E-matching reliable).
func (e *Exec) named(v Val, prefix string) Val {
	if v.Loc != nil || len(v.Tuple) > 0 || !strings.HasPrefix(v.T, "(") || strings.HasPrefix(v.T, "(_ bv") {
		return v
	}
	n := e.c.fresh(prefix, v.S)
	e.c.fact(fmt.Sprintf("(= %s %s)", n, v.T))
	v.T = n
	return v
}

func (e *Exec) allocNew(st *State, r string) {
	c := e.c
	c.factUnder("true", fmt.Sprintf("(and (not (= %s nil)) (= (root %s) %s) (not (select %s %s)))", r, r, r, c.hget(st.heap, "$alloc"), r))
	st.heap = c.hstore(st.heap, "$alloc", r, "true")
}

func (e *Exec) execAlloc(x *ssa.Alloc, st *State) {
	c := e.c
	t := deref(x.Type())
	name := "new"
	if x.Comment != "" {
		name = "new_" + sanitize(x.Comment)
	}
	r := c.fresh(name, SRef)
	e.allocNew(st, r)
	if isStruct(t) {
		st.heap = c.storeStruct(st.heap, r, t, c.zero(t))
		e.initLocks(st, r, t)
		if c.isImmutableType(t) || c.CS.TypeInvs["*"+typeString(t)] != nil || c.CS.TypeInvs[typeString(t)] != nil {
			c.compSort["$unpub"] = "(Array Ref Bool)"
			st.heap = c.hstore(st.heap, "$unpub", r, "true")
		}
	} else if isArray(t) {
		// contents unknown until stored
	} else {
		st.heap = c.hstore(st.heap, c.cellComp(t), r, c.zero(t))
	}
	if !x.Heap {
		if isStruct(t) {
			sc := e.scope(st.heap, st.heap)
			for _, l := range sc.locsOfObject(r, t) {
				if l.ref != "" {
					e.locals = append(e.locals, localCell{l.comp, l.ref})
				}
			}
		} else if !isArray(t) {
			e.locals = append(e.locals, localCell{c.cellComp(t), r})
		}
	}
	e.env[x] = Val{T: r, S: SRef, GT: x.Type()}
	if x.Comment != "" && x.Heap {
		if e.cells == nil {
			e.cells = map[string]Val{}
		}
		if _, dup := e.cells[x.Comment]; !dup {
			e.cells[x.Comment] = Val{T: r, S: SRef, GT: x.Type()}
		}
		if !isStruct(t) && !isArray(t) && e.onlyCapturedByClosures(x) {
			e.captured = append(e.captured, localCell{c.cellComp(t), r})
		}
	}
}

func (e *Exec) idxVal(v Val, t types.Type) string {
	// index operands may be any integer type; widen to the index sort
	c := e.c
	v = e.coerce(v, types.Typ[types.Int])
	if !c.bv {
		return v.T
	}
	bits, signed, _ := intInfo(t)
	if bits == 64 {
		return v.T
	}
	if signed {
		return fmt.Sprintf("((_ sign_extend %d) %s)", 64-bits, v.T)
	}
	return fmt.Sprintf("((_ zero_extend %d) %s)", 64-bits, v.T)
}

func (c *Ctx) lt(a, b string) string {
	if c.bv {
		return fmt.Sprintf("(bvslt %s %s)", a, b)
	}
	return fmt.Sprintf("(< %s %s)", a, b)
}
func (c *Ctx) le(a, b string) string {
	if c.bv {
		return fmt.Sprintf("(bvsle %s %s)", a, b)
	}
	return fmt.Sprintf("(<= %s %s)", a, b)
}
func (c *Ctx) add(a, b string) string {
	if c.bv {
		return fmt.Sprintf("(bvadd %s %s)", a, b)
	}
	return fmt.Sprintf("(+ %s %s)", a, b)
}
func (c *Ctx) sub(a, b string) string {
	if c.bv {
		return fmt.Sprintf("(bvsub %s %s)", a, b)
	}
	return fmt.Sprintf("(- %s %s)", a, b)
}

func (e *Exec) execIndexAddr(x *ssa.IndexAddr, st *State) {
	c := e.c
	base := e.val(x.X)
	i := e.idxVal(e.val(x.Index), x.Index.Type())
	var et types.Type
	var ref string
	switch u := x.X.Type().Underlying().(type) {
	case *types.Slice:
		et = u.Elem()
		e.safety("index", st, and(c.le(c.idx(0), i), c.lt(i, fmt.Sprintf("(sl_len %s)", base.T))), "slice index in range", x.Pos())
		ref = fmt.Sprintf("(sidx %s %s)", base.T, i)
	case *types.Pointer:
		at := u.Elem().Underlying().(*types.Array)
		et = at.Elem()
		e.safety("nil", st, not(fmt.Sprintf("(= %s nil)", base.T)), "nil array pointer", x.Pos())
		e.safety("index", st, and(c.le(c.idx(0), i), c.lt(i, c.idx(at.Len()))), "array index in range", x.Pos())
		ref = fmt.Sprintf("(elem %s %s)", base.T, i)
	default:
		e.unsupported("IndexAddr on %s", x.X.Type())
	}
	if isStruct(et) || isArray(et) {
		e.env[x] = Val{T: ref, S: SRef, GT: x.Type()}
	} else {
		e.env[x] = Val{Loc: &Loc{Comp: c.elemComp(et), Ref: ref, T: et}, GT: x.Type(), S: SRef}
	}
}

func (e *Exec) execIndex(x *ssa.Index, st *State) {
	c := e.c
	base := e.val(x.X)
	i := e.idxVal(e.val(x.Index), x.Index.Type())
	if b, ok := x.X.Type().Underlying().(*types.Basic); ok && b.Info()&types.IsString != 0 {
		c.needBat()
		e.safety("index", st, and(c.le(c.idx(0), i), c.lt(i, fmt.Sprintf("(blen %s)", base.T))), "string index in range", x.Pos())
		e.env[x] = Val{T: fmt.Sprintf("(bat %s %s)", base.T, i), S: c.sortOf(x.Type()), GT: x.Type()}
		return
	}
	e.unsupported("Index on %s", x.X.Type())
}

func (e *Exec) execUnOp(x *ssa.UnOp, st *State) {
	c := e.c
	v := e.val(x.X)
	switch x.Op {
	case token.MUL:
		e.guardCheck(x.X, false, st, x.Pos())
		if g, ok := x.X.(*ssa.Global); ok {
			if cv, ok := e.immutableGlobal(g); ok {
				e.env[x] = cv
				return
			}
		}
		if v.Loc == nil {
			e.safety("nil", st, not(fmt.Sprintf("(= %s nil)", v.T)), "nil dereference in load", x.Pos())
		}
		r := e.load(st.heap, v, x.Type())
		// name it to keep terms small
		if strings.HasPrefix(r.T, "(") {
			n := c.fresh("ld", r.S)
			c.fact(fmt.Sprintf("(= %s %s)", n, r.T))
			r.T = n
		}
		c.fact(c.rangeFact(r.T, x.Type(), 0))
		c.factUnder(st.pc, c.allocFact(st.heap, r))
		e.env[x] = r
	case token.NOT:
		e.env[x] = Val{T: not(v.T), S: SBool, GT: x.Type()}
	case token.SUB:
		if _, _, ok := intInfo(x.Type()); ok {
			zero := Val{T: c.intLit(big.NewInt(0), x.Type()), S: v.S, GT: x.Type()}
			e.env[x] = Val{T: c.arith("-", zero, v, x.Type()), S: v.S, GT: x.Type()}
		} else {
			e.env[x] = e.uninterp("neg", x.Type(), v)
		}
	case token.XOR:
		if c.bv {
			e.env[x] = Val{T: fmt.Sprintf("(bvnot %s)", v.T), S: v.S, GT: x.Type()}
		} else {
			e.env[x] = e.uninterp("bitnot_"+sanitize(typeString(x.Type())), x.Type(), v)
		}
	case token.ARROW:
		e.noLockCheck(st, "channel receive", x.Pos())
		e.ghostEvent("recv", v, st)
		r := c.freshVal("recv", x.Type())
		e.env[x] = r
	default:
		e.unsupported("unop %s", x.Op)
	}
}

func (e *Exec) uninterp(name string, rt types.Type, args ...Val) Val {
	c := e.c
	var sorts, ts []string
	for _, a := range args {
		sorts = append(sorts, string(a.S))
		ts = append(ts, a.T)
	}
	rs := c.sortOf(rt)
	fn := q("u:" + name)
	c.decl("ufn:"+fn, fmt.Sprintf("(declare-fun %s (%s) %s)", fn, strings.Join(sorts, " "), rs))
	if len(args) == 0 {
		return Val{T: fn, S: rs, GT: rt}
	}
	return Val{T: fmt.Sprintf("(%s %s)", fn, strings.Join(ts, " ")), S: rs, GT: rt}
}

func (e *Exec) execTypeAssert(x *ssa.TypeAssert, st *State) {
	c := e.c
	v := e.val(x.X)
	var ok string
	var res Val
	if _, isIface := x.AssertedType.Underlying().(*types.Interface); isIface {
		pred := c.implementsPred(x.AssertedType)
		ok = fmt.Sprintf("(%s (if_tag %s))", pred, v.T)
		if it := x.AssertedType.Underlying().(*types.Interface); it.NumMethods() == 0 && !it.IsComparable() {
			ok = fmt.Sprintf("(not (= (if_tag %s) 0))", v.T) // every non-nil value satisfies the empty interface
		}
		res = Val{T: v.T, S: SIface, GT: x.AssertedType}
		if x.CommaOk {
			res.T = fmt.Sprintf("(ite %s %s %s)", ok, v.T, c.zero(x.AssertedType))
		}
	} else {
		tag := c.typeTag(x.AssertedType)
		ok = fmt.Sprintf("(= (if_tag %s) %d)", v.T, tag)
		s := c.sortOf(x.AssertedType)
		un := c.unbox(fmt.Sprintf("(if_val %s)", v.T), s)
		res = Val{T: un, S: s, GT: x.AssertedType}
		if x.CommaOk {
			res.T = fmt.Sprintf("(ite %s %s %s)", ok, un, c.zero(x.AssertedType))
		}
	}
	if x.CommaOk {
		okn := c.fresh("ok", SBool)
		c.fact(fmt.Sprintf("(= %s %s)", okn, ok))
		e.env[x] = Val{Tuple: []Val{res, {T: okn, S: SBool, GT: types.Typ[types.Bool]}}, GT: x.Type(), S: "Tuple"}
		return
	}
	e.safety("assert-type", st, ok, "type assertion holds", x.Pos())
	e.env[x] = res
}

func (e *Exec) execSlice(x *ssa.Slice, st *State) {
	c := e.c
	base := e.val(x.X)
	var lo, hi, mx string
	if x.Low != nil {
		lo = e.idxVal(e.val(x.Low), x.Low.Type())
	} else {
		lo = c.idx(0)
	}
	switch u := x.X.Type().Underlying().(type) {
	case *types.Slice:
		if x.High != nil {
			hi = e.idxVal(e.val(x.High), x.High.Type())
		} else {
			hi = fmt.Sprintf("(sl_len %s)", base.T)
		}
		capT := fmt.Sprintf("(sl_cap %s)", base.T)
		if x.Max != nil {
			mx = e.idxVal(e.val(x.Max), x.Max.Type())
			e.safety("slice", st, and(c.le(c.idx(0), lo), c.le(lo, hi), c.le(hi, mx), c.le(mx, capT)), "slice bounds", x.Pos())
		} else {
			mx = capT
			e.safety("slice", st, and(c.le(c.idx(0), lo), c.le(lo, hi), c.le(hi, capT)), "slice bounds", x.Pos())
		}
		n := c.fresh("slice", SSlice)
		// slicing a nil slice yields nil
		c.fact(fmt.Sprintf("(= %s (mk_Slice (sl_arr %s) %s %s %s))", n, base.T, c.add(fmt.Sprintf("(sl_off %s)", base.T), lo), c.sub(hi, lo), c.sub(mx, lo)))
		if isByteSlice(x.X.Type()) && !c.bv {
			c.needBytesTheory()
			// content of a sub-slice, stated in the T-Bytes vocabulary (instance of axiom seq_sub)
			c.factUnder(st.pc, fmt.Sprintf("(=> (<= %s (sl_len %s)) (= %s (bsub %s %s %s)))", hi, base.T, c.seqOf(st.heap, n), c.seqOf(st.heap, base.T), lo, hi))
		}
		e.env[x] = Val{T: n, S: SSlice, GT: x.Type()}
	case *types.Pointer:
		at := u.Elem().Underlying().(*types.Array)
		if x.High != nil {
			hi = e.idxVal(e.val(x.High), x.High.Type())
		} else {
			hi = c.idx(at.Len())
		}
		e.safety("slice", st, and(c.le(c.idx(0), lo), c.le(lo, hi), c.le(hi, c.idx(at.Len()))), "slice bounds", x.Pos())
		n := c.fresh("slice", SSlice)
		c.fact(fmt.Sprintf("(= %s (mk_Slice %s %s %s %s))", n, base.T, lo, c.sub(hi, lo), c.sub(c.idx(at.Len()), lo)))
		e.env[x] = Val{T: n, S: SSlice, GT: x.Type()}
	case *types.Basic:
		// string
		if x.High != nil {
			hi = e.idxVal(e.val(x.High), x.High.Type())
		} else {
			hi = fmt.Sprintf("(blen %s)", base.T)
		}
		e.safety("slice", st, and(c.le(c.idx(0), lo), c.le(lo, hi), c.le(hi, fmt.Sprintf("(blen %s)", base.T))), "string slice bounds", x.Pos())
		c.needBytesTheory()
		e.env[x] = Val{T: fmt.Sprintf("(bsub %s %s %s)", base.T, lo, hi), S: SBytes, GT: x.Type()}
	default:
		e.unsupported("slice of %s", x.X.Type())
	}
}

func (e *Exec) execMakeSlice(x *ssa.MakeSlice, st *State) {
	c := e.c
	ln := e.idxVal(e.val(x.Len), x.Len.Type())
	cp := e.idxVal(e.val(x.Cap), x.Cap.Type())
	e.safety("neg-make", st, and(c.le(c.idx(0), ln), c.le(ln, cp)), "make: len and cap in range", x.Pos())
	r := c.fresh("mkslice_arr", SRef)
	e.allocNew(st, r)
	n := c.fresh("mkslice", SSlice)
	c.fact(fmt.Sprintf("(= %s (mk_Slice %s %s %s %s))", n, r, c.idx(0), ln, cp))
	et := x.Type().Underlying().(*types.Slice).Elem()
	if !isStruct(et) && !isArray(et) {
		comp := c.elemComp(et)
		is := c.intS()
		c.factUnder(st.pc, fmt.Sprintf("(forall ((i %s)) (! (= (select %s (elem %s i)) %s) :pattern ((elem %s i))))", is, c.hget(st.heap, comp), r, c.zero(et), r))
	}
	e.env[x] = Val{T: n, S: SSlice, GT: x.Type()}
}

func (c *Ctx) mapDomComp(mt types.Type) string {
	m := mt.Underlying().(*types.Map)
	name := "MD:" + sanitize(typeString(mt))
	if _, ok := c.compSort[name]; !ok {
		c.compSort[name] = Sort(fmt.Sprintf("(Array Ref (Array %s Bool))", c.sortOf(m.Key())))
	}
	return name
}

func (c *Ctx) mapValComp(mt types.Type) string {
	m := mt.Underlying().(*types.Map)
	name := "MV:" + sanitize(typeString(mt))
	if _, ok := c.compSort[name]; !ok {
		c.compSort[name] = Sort(fmt.Sprintf("(Array Ref (Array %s %s))", c.sortOf(m.Key()), c.sortOf(m.Elem())))
	}
	return name
}

func (e *Exec) execLookup(x *ssa.Lookup, st *State) {
	c := e.c
	base := e.val(x.X)
	mt, ok := x.X.Type().Underlying().(*types.Map)
	if !ok {
		// string index
		i := e.idxVal(e.val(x.Index), x.Index.Type())
		c.needBat()
		e.safety("index", st, and(c.le(c.idx(0), i), c.lt(i, fmt.Sprintf("(blen %s)", base.T))), "string index in range", x.Pos())
		e.env[x] = Val{T: fmt.Sprintf("(bat %s %s)", base.T, i), S: c.sortOf(x.Type()), GT: x.Type()}
		return
	}
	k := e.coerce(e.val(x.Index), mt.Key())
	dom, vals := c.mapDomComp(x.X.Type()), c.mapValComp(x.X.Type())
	okT := fmt.Sprintf("(and (not (= %s nil)) (select %s %s))", base.T, c.hsel(st.heap, dom, base.T), k.T)
	vT := fmt.Sprintf("(ite %s (select %s %s) %s)", okT, c.hsel(st.heap, vals, base.T), k.T, c.zero(mt.Elem()))
	vn := c.fresh("mapval", c.sortOf(mt.Elem()))
	c.fact(fmt.Sprintf("(= %s %s)", vn, vT))
	v := Val{T: vn, S: c.sortOf(mt.Elem()), GT: mt.Elem()}
	if x.CommaOk {
		okn := c.fresh("mapok", SBool)
		c.fact(fmt.Sprintf("(= %s %s)", okn, okT))
		e.env[x] = Val{Tuple: []Val{v, {T: okn, S: SBool, GT: types.Typ[types.Bool]}}, GT: x.Type(), S: "Tuple"}
		return
	}
	e.env[x] = v
}

func (e *Exec) execNext(x *ssa.Next, st *State) {
	c := e.c
	it := e.val(x.Iter)
	tt := x.Type().(*types.Tuple)
	okv := Val{T: c.fresh("next_ok", SBool), S: SBool, GT: types.Typ[types.Bool]}
	if x.IsString {
		e.unsupported("range over string")
	}
	m := it.Tuple[0]
	mt := m.GT.Underlying().(*types.Map)
	kv := c.freshVal("next_k", mt.Key())
	dom, vals := c.mapDomComp(m.GT), c.mapValComp(m.GT)
	c.factUnder(st.pc, fmt.Sprintf("(=> %s (select %s %s))", okv.T, c.hsel(st.heap, dom, m.T), kv.T))
	vv := Val{T: fmt.Sprintf("(select %s %s)", c.hsel(st.heap, vals, m.T), kv.T), S: c.sortOf(mt.Elem()), GT: mt.Elem()}
	_ = tt
	e.env[x] = Val{Tuple: []Val{okv, kv, vv}, GT: x.Type(), S: "Tuple"}
}

func (e *Exec) ghostEvent(kind string, v Val, st *State) {
	// channel operations: modelled as no-ops on the sequential state
}

func (e *Exec) execSelect(x *ssa.Select, st *State) {
	c := e.c
	// nondeterministic choice: index is arbitrary in [0, n) (or -1 for default when non-blocking)
	tt := x.Type().(*types.Tuple)
	var vs []Val
	for i := 0; i < tt.Len(); i++ {
		vs = append(vs, c.freshVal("select", tt.At(i).Type()))
	}
	lo := 0
	if !x.Blocking {
		lo = -1
	} else {
		e.noLockCheck(st, "blocking select", x.Pos())
	}
	c.factUnder(st.pc, and(c.le(c.idx(int64(lo)), vs[0].T), c.lt(vs[0].T, c.idx(int64(len(x.States))))))
	e.env[x] = Val{Tuple: vs, GT: x.Type(), S: "Tuple"}
}

// ------------------------------------------------------------ return / panic

func (e *Exec) execReturn(x *ssa.Return, st *State) {
	c := e.c
	e.hasRet = true
	e.retPCs = append(e.retPCs, st.pc)
	var results []Val
	sig := e.fn.Signature
	for i, r := range x.Results {
		results = append(results, e.coerce(e.val(r), sig.Results().At(i).Type()))
	}
	for _, gs := range e.con.GhostSets {
		if gs.Post {
			continue
		}
		esc := e.scope(c.entry, c.entry)
		esc.where = "ghost-set " + gs.Name
		esc.evalIdent(gs.Name)
		idx := esc.rvalue(esc.eval(gs.Idx))
		val := esc.rvalue(esc.eval(gs.Val.E))
		st.heap = c.hstore(st.heap, "G:"+gs.Name, idx.T, val.T)
	}
	resNames := map[string]Val{}
	for i := 0; i < sig.Results().Len(); i++ {
		if n := sig.Results().At(i).Name(); n != "" && n != "_" {
			resNames[n] = results[i]
		}
	}
	for _, gs := range e.con.GhostSets {
		if !gs.Post {
			continue
		}
		gsc := e.scope(st.heap, c.entry)
		gsc.results = results
		gsc.names = resNames
		gsc.where = "ghost-set-post " + gs.Name
		gsc.evalIdent(gs.Name)
		idx := gsc.rvalue(gsc.eval(gs.Idx))
		val := gsc.rvalue(gsc.eval(gs.Val.E))
		st.heap = c.hstore(st.heap, "G:"+gs.Name, idx.T, val.T)
	}
	sc := e.scope(st.heap, c.entry)
	sc.results = results
	sc.names = resNames
	e.retCount++
	for i, en := range e.con.Ensures {
		g := e.evalBool(sc, en)
		c.oblige("post", fmt.Sprintf("post[%d]@ret%d", i+1, e.retCount), st.pc, g, "postcondition: "+en.Src, e.pos(x.Pos()))
	}
	e.checkRefines(st, results, x.Pos())
	if e.panicsOK != "" {
		c.oblige("post", fmt.Sprintf("must-panic@ret%d", e.retCount), st.pc, not(e.panicsOK), "function returns normally only when its panics-condition is false", e.pos(x.Pos()))
	}
	e.checkFrame(st, x.Pos())
}

func (e *Exec) execPanic(x *ssa.Panic, st *State) {
	c := e.c
	if e.panicsOK != "" {
		c.oblige("safety.panic", fmt.Sprintf("panic-allowed@b%d", e.curBlock.Index), st.pc, e.panicsOK, "explicit panic only under the contract's panics-condition", e.pos(x.Pos()))
		return
	}
	if e.nopanic {
		c.oblige("safety.panic", fmt.Sprintf("panic-unreachable@b%d", e.curBlock.Index), st.pc, "false", "explicit panic is unreachable", e.pos(x.Pos()))
	}
}

// immutableGlobal: a package-level variable that is assigned only in the package initialiser
// is a constant for every other function. For error-typed variables initialised by
// errors.New / fmt.Errorf the constant is known to be non-nil.
func (e *Exec) immutableGlobal(g *ssa.Global) (Val, bool) {
	c := e.c
	if c.immGlobals == nil {
		c.immGlobals = map[*ssa.Global]*Val{}
	}
	if v, ok := c.immGlobals[g]; ok {
		if v == nil {
			return Val{}, false
		}
		return *v, true
	}
	t := deref(g.Type())
	if isStruct(t) || isArray(t) {
		c.immGlobals[g] = nil
		return Val{}, false
	}
	nonNil := false
	freshObj := false
	for _, mem := range g.Pkg.Members {
		fn, ok := mem.(*ssa.Function)
		if !ok {
			continue
		}
		fns := append([]*ssa.Function{fn}, fn.AnonFuncs...)
		for _, f := range fns {
			for _, b := range f.Blocks {
				for _, ins := range b.Instrs {
					// any use of the global other than a load makes it mutable (store, address taken)
					for _, op := range ins.Operands(nil) {
						if *op != ssa.Value(g) {
							continue
						}
						if u, ok := ins.(*ssa.UnOp); ok && u.Op == token.MUL {
							continue
						}
						st, isStore := ins.(*ssa.Store)
						if isStore && st.Addr == ssa.Value(g) && f.Name() == "init" && f.Parent() == nil {
							switch st.Val.(type) {
							case *ssa.MakeClosure, *ssa.Function:
								nonNil = true
							}
							if call, ok := st.Val.(*ssa.Call); ok {
								if sc := call.Common().StaticCallee(); sc != nil && (sc.String() == "errors.New" || sc.String() == "fmt.Errorf" || returnsFreshAlloc(sc)) {
									// errors.New, fmt.Errorf and pool.New (which returns &Pool{...}) never return nil
									nonNil = true
									freshObj = returnsFreshAlloc(sc)
								}
							}
							continue
						}
						c.immGlobals[g] = nil
						return Val{}, false
					}
				}
			}
		}
	}
	// methods of named types in the package
	for _, mem := range g.Pkg.Members {
		if tn, ok := mem.(*ssa.Type); ok {
			for _, recv := range []types.Type{tn.Type(), types.NewPointer(tn.Type())} {
				ms := g.Pkg.Prog.MethodSets.MethodSet(recv)
				for i := 0; i < ms.Len(); i++ {
					f := g.Pkg.Prog.MethodValue(ms.At(i))
					if f == nil || f.Pkg != g.Pkg {
						continue
					}
					for _, ff := range append([]*ssa.Function{f}, f.AnonFuncs...) {
						for _, b := range ff.Blocks {
							for _, ins := range b.Instrs {
								for _, op := range ins.Operands(nil) {
									if *op == ssa.Value(g) {
										if u, ok := ins.(*ssa.UnOp); ok && u.Op == token.MUL {
											continue
										}
										c.immGlobals[g] = nil
										return Val{}, false
									}
								}
							}
						}
					}
				}
			}
		}
	}
	n := q("gconst:" + shortPath(g.Pkg.Pkg.Path()) + "." + g.Name())
	s := c.sortOf(t)
	c.decl("gconst:"+n, fmt.Sprintf("(declare-const %s %s)", n, s))
	v := Val{T: n, S: s, GT: t}
	c.decl("gconst-range:"+n, fmt.Sprintf("(assert %s)", c.rangeFact(n, t, 0)))
	if nonNil && s == SIface {
		c.decl("gconst-nonnil:"+n, fmt.Sprintf("(assert (not (= (if_tag %s) 0)))", n))
	}
	if nonNil && s == SFn {
		c.decl("gconst-nonnil:"+n, fmt.Sprintf("(assert (not (= %s nilfn)))", n))
	}
	if nonNil && s == SRef {
		c.decl("gconst-nonnil:"+n, fmt.Sprintf("(assert (not (= %s nil)))", n))
	}
	if freshObj && s == SRef {
		// the object was allocated by the initialiser: a heap object of its own, distinct from
		// every package-level variable
		c.decl("gconst-root:"+n, fmt.Sprintf("(assert (= (root %s) %s))", n, n))
		c.gconstObjs = append(c.gconstObjs, n)
		var gs []string
		for o := range c.globals {
			gs = append(gs, o)
		}
		sort.Strings(gs)
		for _, o := range gs {
			c.decls = append(c.decls, fmt.Sprintf("(assert (not (= %s %s)))", n, o))
		}
	}
	c.immGlobals[g] = &v
	return v, true
}

// checkRefines: the function must establish the postconditions of the interface method
// contracts it is declared to refine (callers through the interface rely only on those).
func (e *Exec) checkRefines(st *State, results []Val, pos token.Pos) {
	c := e.c
	for _, id := range e.con.Refines {
		icon, binder := e.refineBinder(id)
		sc := &Scope{e: e, c: c, cur: st.heap, old: c.entry, params: binder, names: map[string]Val{}, pkg: pkgOf(e.fn), tracks: map[string]*trackInfo{}, results: results}
		// callers through the refined contract have established its preconditions
		esc := &Scope{e: e, c: c, cur: c.entry, old: c.entry, params: binder, names: map[string]Val{}, pkg: pkgOf(e.fn), tracks: map[string]*trackInfo{}}
		var ihyp []string
		for _, r := range icon.Requires {
			ihyp = append(ihyp, e.evalBool(esc, r))
		}
		for i, en := range icon.Ensures {
			if mentionsTracks(en.E, icon) {
				continue
			}
			g := e.evalBool(sc, en)
			if len(ihyp) > 0 {
				g = fmt.Sprintf("(=> %s %s)", and(ihyp...), g)
			}
			c.oblige("refine", fmt.Sprintf("refine[%s:%d]@ret%d", lastSeg(id), i+1, e.retCount), st.pc, g, "interface contract "+id+": "+en.Src, e.pos(pos))
		}
		// the refined contract's frame: callers through the interface rely on its modifies clause
		fsc := &Scope{e: e, c: c, cur: c.entry, old: c.entry, params: binder, names: map[string]Val{}, pkg: pkgOf(e.fn), tracks: map[string]*trackInfo{}}
		e.checkFrameAgainst(icon, fsc, "refine-frame:"+lastSeg(id), st, pos)
	}
}

// refineBinder binds the parameter names of a refined (interface or callback) contract to the
// parameters of the function under verification.
func (e *Exec) refineBinder(id string) (*Contract, map[string]Val) {
	c := e.c
	binder := map[string]Val{}
	if strings.HasPrefix(id, "callback:") {
		icon := c.CS.ByID["callback "+strings.TrimPrefix(id, "callback:")]
		if icon == nil {
			e.unsupported("refines %s: no such callback contract", id)
		}
		names := icon.Params
		if len(names) == 0 {
			for i := range e.fn.Params {
				names = append(names, fmt.Sprintf("arg%d", i))
			}
		}
		for i, n := range names {
			if i < len(e.fn.Params) {
				binder[n] = e.env[e.fn.Params[i]]
			}
		}
		return icon, binder
	}
	icon := c.CS.ByID["iface "+id]
	if icon == nil {
		e.unsupported("refines %s: no such interface contract", id)
	}
	if len(e.fn.Params) == 0 {
		e.unsupported("refines %s: function has no receiver", id)
	}
	recv := e.env[e.fn.Params[0]]
	tag := c.typeTag(e.fn.Params[0].Type())
	binder["self"] = Val{T: fmt.Sprintf("(mk_Iface %d %s)", tag, c.box(recv)), S: SIface}
	names := icon.Params
	if len(names) == 0 {
		for i := 1; i < len(e.fn.Params); i++ {
			names = append(names, fmt.Sprintf("arg%d", i-1))
		}
	}
	for i, n := range names {
		if i+1 < len(e.fn.Params) {
			binder[n] = e.env[e.fn.Params[i+1]]
		}
	}
	return icon, binder
}

// checkRefinesPre: what callers through the refined contract establish (its requires) must imply
// the function's own preconditions. Generated before the function's requires are assumed.
func (e *Exec) checkRefinesPre(entry *Heap) {
	c := e.c
	for _, id := range e.con.Refines {
		icon, binder := e.refineBinder(id)
		sc := &Scope{e: e, c: c, cur: entry, old: entry, params: binder, names: map[string]Val{}, pkg: pkgOf(e.fn), tracks: map[string]*trackInfo{}}
		var hyp []string
		for _, r := range icon.Requires {
			hyp = append(hyp, e.evalBool(sc, r))
		}
		if !strings.HasPrefix(id, "callback:") && len(e.fn.Params) > 0 {
			// the receiver was converted to the interface somewhere in zap, where its type invariant held
			if inv, ti := e.typeInvOf(e.fn.Params[0].Type(), e.env[e.fn.Params[0]], entry); ti != nil {
				hyp = append(hyp, inv)
				c.assumed["typeinv "+ti.Type+" (established at every conversion to an interface in a function under contract; fields it mentions are stored only before publication)"] = true
			}
		}
		own := e.scope(entry, entry)
		for j, r := range e.con.Requires {
			g := e.evalBool(own, r)
			c.oblige("refine", fmt.Sprintf("refine-pre[%s:%d]", lastSeg(id), j+1), and(hyp...), g, "precondition follows from what callers of "+id+" establish: "+r.Src, e.pos(e.fn.Pos()))
		}
	}
}

// onlyCapturedByClosures: the address of the local is used only by loads, stores and as a
// closure binding (so only this function and its closures can reach the cell).
func (e *Exec) onlyCapturedByClosures(a *ssa.Alloc) bool {
	for _, ref := range *a.Referrers() {
		switch r := ref.(type) {
		case *ssa.Store:
			if r.Val == ssa.Value(a) {
				return false
			}
		case *ssa.UnOp, *ssa.DebugRef:
		case *ssa.MakeClosure:
		default:
			return false
		}
	}
	return true
}

// returnsFreshAlloc: every return of f yields the address of an object allocated in f
// (so the result is never nil). Purely syntactic.
func returnsFreshAlloc(f *ssa.Function) bool {
	if f == nil || len(f.Blocks) == 0 || f.Signature.Results().Len() != 1 {
		return false
	}
	found := false
	for _, b := range f.Blocks {
		for _, ins := range b.Instrs {
			if r, ok := ins.(*ssa.Return); ok {
				a, ok := r.Results[0].(*ssa.Alloc)
				if !ok || !a.Heap {
					return false
				}
				found = true
			}
		}
	}
	return found
}

// findStableNames: source variables that denote one SSA value throughout the function
// (assigned once, never address-taken) can be referred to by name in contracts.
func (e *Exec) findStableNames() {
	e.stableNames = map[ssa.Value]string{}
	vals := map[types.Object]map[ssa.Value]bool{}
	byName := map[string]map[types.Object]bool{}
	for _, b := range e.fn.Blocks {
		for _, ins := range b.Instrs {
			d, ok := ins.(*ssa.DebugRef)
			if !ok || d.IsAddr {
				continue
			}
			obj := d.Object()
			if obj == nil {
				continue
			}
			if _, isVar := obj.(*types.Var); !isVar {
				continue
			}
			if vals[obj] == nil {
				vals[obj] = map[ssa.Value]bool{}
			}
			vals[obj][d.X] = true
			if byName[obj.Name()] == nil {
				byName[obj.Name()] = map[types.Object]bool{}
			}
			byName[obj.Name()][obj] = true
		}
	}
	for obj, vs := range vals {
		if len(vs) != 1 || len(byName[obj.Name()]) != 1 {
			continue
		}
		for v := range vs {
			switch v.(type) {
			case *ssa.Parameter, *ssa.Phi, *ssa.Const, *ssa.Global, *ssa.Function:
				continue
			}
			if _, isParam := e.params[obj.Name()]; isParam {
				continue
			}
			e.stableNames[v] = obj.Name()
		}
	}
}

// stepInvs: intermediate assertions that hold after every call (they split a long frame argument
// into one small obligation per step). A clause whose names are not bound yet is skipped.
func (e *Exec) stepInvs(st *State, pos token.Pos) {
	c := e.c
	for i, cl := range e.con.StepInvs {
		g, ok := e.tryEvalBool(st, cl)
		if !ok {
			continue
		}
		e.stepCount++
		c.oblige("stepinv", fmt.Sprintf("stepinv[%d]@step%d", i+1, e.stepCount), st.pc, g, "step invariant: "+cl.Src, e.pos(pos))
		c.factUnder(st.pc, g)
	}
}

func (e *Exec) tryEvalBool(st *State, cl Clause) (g string, ok bool) {
	defer func() {
		if r := recover(); r != nil {
			if u, isU := r.(unsupportedErr); isU && strings.Contains(string(u), "unknown identifier") {
				ok = false
				return
			}
			panic(r)
		}
	}()
	sc := e.scope(st.heap, e.c.entry)
	return e.evalBool(sc, cl), true
}
