package main

import (
	"fmt"
	"go/token"
	"go/types"
	"math/big"
	"sort"
	"strings"
)

// wrapInt reduces a mathematical integer term into the range of t (int mode).
func (c *Ctx) wrapInt(term string, t types.Type, single bool) string {
	bits, signed, _ := intInfo(t)
	m := pow2(bits).String()
	if signed {
		half := pow2(bits - 1).String()
		if single {
			return fmt.Sprintf("(let ((w!s %s)) (ite (>= w!s %s) (- w!s %s) (ite (< w!s (- %s)) (+ w!s %s) w!s)))", term, half, m, half, m)
		}
		return fmt.Sprintf("(- (mod (+ %s %s) %s) %s)", term, half, m, half)
	}
	if single {
		return fmt.Sprintf("(let ((w!s %s)) (ite (>= w!s %s) (- w!s %s) (ite (< w!s 0) (+ w!s %s) w!s)))", term, m, m, m)
	}
	return fmt.Sprintf("(mod %s %s)", term, m)
}

// arith implements + - * / % for integer values of Go type t.
func (c *Ctx) arith(op string, a, b Val, t types.Type) string {
	_, signed, _ := intInfo(t)
	if c.bv {
		switch op {
		case "+":
			return fmt.Sprintf("(bvadd %s %s)", a.T, b.T)
		case "-":
			return fmt.Sprintf("(bvsub %s %s)", a.T, b.T)
		case "*":
			return fmt.Sprintf("(bvmul %s %s)", a.T, b.T)
		case "/", "%":
			f := map[string]string{"/u": "bvudiv", "/s": "bvsdiv", "%u": "bvurem", "%s": "bvsrem"}[op+map[bool]string{true: "s", false: "u"}[signed]]
			if !strings.HasPrefix(b.T, "(_ bv") {
				// symbolic divisor: division circuits make every query that merely
				// mentions the term expensive; an uninterpreted symbol keeps
				// congruence, which is what the contracts need (completeness loss only).
				bits, _, _ := intInfo(t)
				u := fmt.Sprintf("%s_u%d", f, bits)
				c.decl("ufn:"+u, fmt.Sprintf("(declare-fun %s ((_ BitVec %d) (_ BitVec %d)) (_ BitVec %d))", u, bits, bits, bits))
				return fmt.Sprintf("(%s %s %s)", u, a.T, b.T)
			}
			return fmt.Sprintf("(%s %s %s)", f, a.T, b.T)
		}
	}
	switch op {
	case "+":
		return c.wrapInt(fmt.Sprintf("(+ %s %s)", a.T, b.T), t, true)
	case "-":
		return c.wrapInt(fmt.Sprintf("(- %s %s)", a.T, b.T), t, true)
	case "*":
		return c.wrapInt(fmt.Sprintf("(* %s %s)", a.T, b.T), t, false)
	case "/":
		if signed {
			return c.wrapInt(fmt.Sprintf("(tdiv %s %s)", a.T, b.T), t, true)
		}
		return fmt.Sprintf("(div %s %s)", a.T, b.T)
	case "%":
		if signed {
			return fmt.Sprintf("(tmod %s %s)", a.T, b.T)
		}
		return fmt.Sprintf("(mod %s %s)", a.T, b.T)
	}
	panic("arith op " + op)
}

func (c *Ctx) cmp(op string, a, b Val, t types.Type) string {
	_, signed, isInt := intInfo(t)
	if isInt && c.bv {
		var f string
		switch op {
		case "<":
			f = "bvult"
			if signed {
				f = "bvslt"
			}
		case "<=":
			f = "bvule"
			if signed {
				f = "bvsle"
			}
		case ">":
			f = "bvugt"
			if signed {
				f = "bvsgt"
			}
		case ">=":
			f = "bvuge"
			if signed {
				f = "bvsge"
			}
		}
		return fmt.Sprintf("(%s %s %s)", f, a.T, b.T)
	}
	if isInt {
		return fmt.Sprintf("(%s %s %s)", op, a.T, b.T)
	}
	return ""
}

func tokOp(op token.Token) string {
	switch op {
	case token.ADD:
		return "+"
	case token.SUB:
		return "-"
	case token.MUL:
		return "*"
	case token.QUO:
		return "/"
	case token.REM:
		return "%"
	case token.AND:
		return "&"
	case token.OR:
		return "|"
	case token.XOR:
		return "^"
	case token.SHL:
		return "<<"
	case token.SHR:
		return ">>"
	case token.AND_NOT:
		return "&^"
	case token.EQL:
		return "=="
	case token.NEQ:
		return "!="
	case token.LSS:
		return "<"
	case token.LEQ:
		return "<="
	case token.GTR:
		return ">"
	case token.GEQ:
		return ">="
	}
	return op.String()
}

func (e *Exec) binop(op token.Token, a, b Val, opT, resT types.Type, st *State, pos token.Pos) Val {
	a = e.coerce(a, opT)
	if op != token.SHL && op != token.SHR {
		b = e.coerce(b, opT)
	}
	if (op == token.EQL || op == token.NEQ) && st != nil && a.Loc == nil && b.Loc == nil {
		if cc := e.c.comparableCond(opT, a.T, b.T); cc != "true" && a.T != "(mk_Iface 0 nilbox)" && b.T != "(mk_Iface 0 nilbox)" {
			e.safety("comparable", st, cc, "== on interface values with identical dynamic types needs a comparable type", pos)
		}
	}
	r, div := e.c.binopVal(tokOp(op), a, b, opT, resT)
	if div != "" && st != nil {
		e.safety("div", st, div, "division by zero", pos)
	}
	if r.T == "" {
		e.unsupported("binop %s on %s", op, opT)
	}
	return r
}

// binopVal computes a Go binary operation; div is a non-zero-divisor condition when relevant.
func (c *Ctx) binopVal(op string, a, b Val, opT, resT types.Type) (Val, string) {
	_, signed, isInt := intInfo(opT)
	res := func(t string) Val { return Val{T: t, S: c.sortOf(resT), GT: resT} }
	switch op {
	case "==", "!=":
		var eq string
		if a.Loc != nil || b.Loc != nil {
			return Val{}, ""
		}
		const nilIface = "(mk_Iface 0 nilbox)"
		switch {
		case a.S == SIface && b.T == nilIface:
			eq = fmt.Sprintf("(= (if_tag %s) 0)", a.T)
		case b.S == SIface && a.T == nilIface:
			eq = fmt.Sprintf("(= (if_tag %s) 0)", b.T)
		case a.S == SSlice && strings.HasPrefix(b.T, "(mk_Slice nil "):
			eq = fmt.Sprintf("(= (sl_arr %s) nil)", a.T)
		case b.S == SSlice && strings.HasPrefix(a.T, "(mk_Slice nil "):
			eq = fmt.Sprintf("(= (sl_arr %s) nil)", b.T)
		default:
			eq = fmt.Sprintf("(= %s %s)", a.T, b.T)
		}
		if op == "!=" {
			eq = not(eq)
		}
		return Val{T: eq, S: SBool, GT: resT}, ""
	case "<", "<=", ">", ">=":
		if isInt {
			return Val{T: c.cmp(op, a, b, opT), S: SBool, GT: resT}, ""
		}
		// strings / floats: uninterpreted order
		fn := q("u:cmp" + op + ":" + string(a.S))
		c.decl("ufn:"+fn, fmt.Sprintf("(declare-fun %s (%s %s) Bool)", fn, a.S, a.S))
		return Val{T: fmt.Sprintf("(%s %s %s)", fn, a.T, b.T), S: SBool, GT: resT}, ""
	}
	if bt, ok := opT.Underlying().(*types.Basic); ok && bt.Info()&types.IsBoolean != 0 {
		switch op {
		case "&&", "&":
			return res(and(a.T, b.T)), ""
		case "||", "|":
			return res(or(a.T, b.T)), ""
		}
	}
	if bt, ok := opT.Underlying().(*types.Basic); ok && bt.Info()&types.IsString != 0 && op == "+" {
		c.needBytesTheory()
		return res(fmt.Sprintf("(bcat %s %s)", a.T, b.T)), ""
	}
	if !isInt {
		// float / complex arithmetic: uninterpreted
		fn := q("u:" + op + ":" + string(a.S))
		c.decl("ufn:"+fn, fmt.Sprintf("(declare-fun %s (%s %s) %s)", fn, a.S, b.S, c.sortOf(resT)))
		return res(fmt.Sprintf("(%s %s %s)", fn, a.T, b.T)), ""
	}
	bits, _, _ := intInfo(opT)
	switch op {
	case "+", "-", "*":
		return res(c.arith(op, a, b, opT)), ""
	case "/", "%":
		nz := not(fmt.Sprintf("(= %s %s)", b.T, c.intLit(big.NewInt(0), opT)))
		return res(c.arith(op, a, b, opT)), nz
	}
	if c.bv {
		// shifts: the shift count may have a different width
		if op == "<<" || op == ">>" {
			bb := b
			if bb.Lit != nil {
				bb = Val{T: c.intLitBits(bb.Lit, bits), S: a.S}
			} else {
				bbits, _, _ := intInfo(b.GT)
				if bbits < bits {
					bb.T = fmt.Sprintf("((_ zero_extend %d) %s)", bits-bbits, b.T)
				} else if bbits > bits {
					// saturate: if high bits set, shift >= width
					bb.T = fmt.Sprintf("(ite (bvuge %s (_ bv%d %d)) (_ bv%d %d) ((_ extract %d 0) %s))", b.T, bits, bbits, bits, bits, bits-1, b.T)
				}
			}
			switch {
			case op == "<<":
				return res(fmt.Sprintf("(bvshl %s %s)", a.T, bb.T)), ""
			case signed:
				return res(fmt.Sprintf("(bvashr %s %s)", a.T, bb.T)), ""
			default:
				return res(fmt.Sprintf("(bvlshr %s %s)", a.T, bb.T)), ""
			}
		}
		f := map[string]string{"&": "bvand", "|": "bvor", "^": "bvxor"}[op]
		if op == "&^" {
			return res(fmt.Sprintf("(bvand %s (bvnot %s))", a.T, b.T)), ""
		}
		return res(fmt.Sprintf("(%s %s %s)", f, a.T, b.T)), ""
	}
	// int mode: bit operations are uninterpreted unless a side is a convenient constant
	if op == "<<" || op == ">>" {
		if k, ok := litOf(b); ok && k.IsInt64() && k.Int64() >= 0 && k.Int64() < 64 {
			p := pow2(int(k.Int64())).String()
			if op == "<<" {
				return res(c.wrapInt(fmt.Sprintf("(* %s %s)", a.T, p), opT, false)), ""
			}
			return res(fmt.Sprintf("(div %s %s)", a.T, p)), ""
		}
	}
	if op == "&" && !signed {
		if k, ok := litOf(b); ok {
			k1 := new(big.Int).Add(k, big.NewInt(1))
			if k1.BitLen() > 0 && new(big.Int).And(k1, k).Sign() == 0 {
				return res(fmt.Sprintf("(mod %s %s)", a.T, k1.String())), ""
			}
		}
	}
	bs := c.coerceShift(b, a)
	fn := q(fmt.Sprintf("u:bit%s:%d", op, bits))
	c.decl("ufn:"+fn, fmt.Sprintf("(declare-fun %s (Int Int) Int)", fn))
	r := res(fmt.Sprintf("(%s %s %s)", fn, a.T, bs.T))
	return r, ""
}

func (c *Ctx) coerceShift(b, a Val) Val {
	if b.Lit != nil {
		return Val{T: c.intLitBits(b.Lit, 64), S: a.S}
	}
	return b
}

func litOf(v Val) (*big.Int, bool) {
	if v.Lit != nil {
		return v.Lit, true
	}
	k := new(big.Int)
	if _, ok := k.SetString(v.T, 10); ok {
		return k, true
	}
	return nil, false
}

// convert implements ssa.Convert.
func (e *Exec) convert(v Val, from, to types.Type, st *State) Val {
	c := e.c
	v = e.coerce(v, from)
	fb, fs, fInt := intInfo(from)
	tb, ts, tInt := intInfo(to)
	if fInt && tInt {
		return Val{T: c.convInt(v.T, fb, fs, tb, ts, to), S: c.sortOf(to), GT: to}
	}
	fromStr := isStringT(from)
	toStr := isStringT(to)
	if toStr && isByteSlice(from) {
		c.needBytesTheory()
		return Val{T: c.seqOf(st.heap, v.T), S: SBytes, GT: to}
	}
	if fromStr && isByteSlice(to) {
		c.needBytesTheory()
		r := c.fresh("tobytes_arr", SRef)
		e.allocNew(st, r)
		n := c.fresh("tobytes", SSlice)
		c.fact(fmt.Sprintf("(= %s (mk_Slice %s %s (blen %s) (blen %s)))", n, r, c.idx(0), v.T, v.T))
		c.factUnder(st.pc, fmt.Sprintf("(= %s %s)", c.seqOf(st.heap, n), v.T))
		return Val{T: n, S: SSlice, GT: to}
	}
	if fromStr && toStr {
		v.GT = to
		return v
	}
	if c.sortOf(from) == c.sortOf(to) && !fInt && !tInt {
		// float32<->float64 etc. are not identities; pointers/unsafe are
		if _, ok := from.Underlying().(*types.Basic); !ok {
			v.GT = to
			return v
		}
	}
	r := e.uninterp("conv:"+sanitize(typeString(from.Underlying()))+":"+sanitize(typeString(to.Underlying())), to, v)
	if tInt {
		c.fact(c.rangeFact(r.T, to, 0))
	}
	return r
}

func isStringT(t types.Type) bool {
	b, ok := t.Underlying().(*types.Basic)
	return ok && b.Info()&types.IsString != 0
}

func isByteSlice(t types.Type) bool {
	s, ok := t.Underlying().(*types.Slice)
	if !ok {
		return false
	}
	b, ok := s.Elem().Underlying().(*types.Basic)
	return ok && b.Kind() == types.Uint8
}

func (c *Ctx) convInt(term string, fb int, fs bool, tb int, ts bool, to types.Type) string {
	if c.bv {
		switch {
		case tb == fb:
			return term
		case tb < fb:
			return fmt.Sprintf("((_ extract %d 0) %s)", tb-1, term)
		case fs:
			return fmt.Sprintf("((_ sign_extend %d) %s)", tb-fb, term)
		default:
			return fmt.Sprintf("((_ zero_extend %d) %s)", tb-fb, term)
		}
	}
	// int mode
	if fs == ts && tb >= fb {
		return term
	}
	if !fs && ts && tb > fb {
		return term
	}
	return c.wrapInt(term, to, false)
}

// ---------------------------------------------------------------- T-Bytes

func (c *Ctx) needBytesTheory() {
	if c.declared["bcat"] {
		return
	}
	is := string(c.intS())
	c.needBat()
	c.decl("bcat", "(declare-fun bcat (Bytes Bytes) Bytes)")
	c.decl("bsub", fmt.Sprintf("(declare-fun bsub (Bytes %s %s) Bytes)", is, is))
	b8 := "Int"
	if c.bv {
		b8 = "(_ BitVec 8)"
	}
	c.decl("bunit", fmt.Sprintf("(declare-fun bunit (%s) Bytes)", b8))
	c.decl("seq8", fmt.Sprintf("(declare-fun seq8 ((Array Ref %s) Ref %s %s) Bytes)", b8, is, is))
	ax := func(name, body string) {
		c.decl("ax:"+name, "(assert "+body+")")
		c.axiomsUsed["T-Bytes:"+name] = true
	}
	if !c.bv {
		// b8 clamps an array cell to a byte: the seq8 laws are stated for EVERY array E (also ones that hold
		// values no byte array of the program can hold), and bat_range says every element of a byte string is a
		// byte - without the clamp the two contradict each other for such an E (found in session 4 when a
		// deliberately false theory axiom was "proved"). For cells written by the program b8 is the identity.
		c.decl("b8", "(define-fun b8 ((v Int)) Int (ite (and (<= 0 v) (<= v 255)) v 0))")
		ax("cat_len", "(forall ((a Bytes) (b Bytes)) (! (= (blen (bcat a b)) (+ (blen a) (blen b))) :pattern ((bcat a b))))")
		ax("cat_unit_l", "(forall ((a Bytes)) (! (= (bcat bempty a) a) :pattern ((bcat bempty a))))")
		ax("cat_unit_r", "(forall ((a Bytes)) (! (= (bcat a bempty) a) :pattern ((bcat a bempty))))")
		ax("cat_assoc", "(forall ((a Bytes) (b Bytes) (d Bytes)) (! (= (bcat (bcat a b) d) (bcat a (bcat b d))) :pattern ((bcat (bcat a b) d))))")
		ax("unit_len", "(forall ((x Int)) (! (= (blen (bunit x)) 1) :pattern ((bunit x))))")
		ax("unit_at", "(forall ((x Int)) (! (=> (and (<= 0 x) (<= x 255)) (= (bat (bunit x) 0) x)) :pattern ((bunit x))))")
		ax("cat_at", "(forall ((a Bytes) (b Bytes) (i Int)) (! (= (bat (bcat a b) i) (ite (< i (blen a)) (bat a i) (bat b (- i (blen a))))) :pattern ((bat (bcat a b) i))))")
		ax("sub_len", "(forall ((a Bytes) (i Int) (j Int)) (! (=> (and (<= 0 i) (<= i j) (<= j (blen a))) (= (blen (bsub a i j)) (- j i))) :pattern ((bsub a i j))))")
		ax("sub_at", "(forall ((a Bytes) (i Int) (j Int) (k Int)) (! (=> (and (<= 0 i) (<= i j) (<= j (blen a)) (<= 0 k) (< k (- j i))) (= (bat (bsub a i j) k) (bat a (+ i k)))) :pattern ((bat (bsub a i j) k))))")
		ax("sub_all", "(forall ((a Bytes)) (! (= (bsub a 0 (blen a)) a) :pattern ((bsub a 0 (blen a)))))")
		ax("sub_empty", "(forall ((a Bytes) (i Int)) (! (= (bsub a i i) bempty) :pattern ((bsub a i i))))")
		ax("sub_split", "(forall ((a Bytes) (i Int) (j Int) (k Int)) (! (=> (and (<= 0 i) (<= i j) (<= j k) (<= k (blen a))) (= (bcat (bsub a i j) (bsub a j k)) (bsub a i k))) :pattern ((bcat (bsub a i j) (bsub a j k)))))")
		ax("sub_snoc", "(forall ((a Bytes) (i Int) (j Int)) (! (=> (and (<= 0 i) (<= i j) (< j (blen a))) (= (bsub a i (+ j 1)) (bcat (bsub a i j) (bunit (bat a j))))) :pattern ((bsub a i (+ j 1)))))")
		ax("seq_len", "(forall ((E (Array Ref Int)) (r Ref) (o Int) (n Int)) (! (=> (<= 0 n) (= (blen (seq8 E r o n)) n)) :pattern ((seq8 E r o n))))")
		ax("seq_unit", "(forall ((E (Array Ref Int)) (r Ref) (o Int)) (! (= (seq8 E r o 1) (bunit (b8 (select E (elem r o))))) :pattern ((seq8 E r o 1))))")
		ax("seq_snoc", "(forall ((E (Array Ref Int)) (r Ref) (o Int) (n Int)) (! (=> (<= 0 n) (= (seq8 E r o (+ n 1)) (bcat (seq8 E r o n) (bunit (b8 (select E (elem r (+ o n)))))))) :pattern ((seq8 E r o (+ n 1)))))")
		ax("seq_frame", "(forall ((E (Array Ref Int)) (F (Array Ref Int)) (r Ref) (o Int) (n Int)) (! (=> (forall ((k Int)) (=> (and (<= 0 k) (< k n)) (= (select E (elem r (+ o k))) (select F (elem r (+ o k)))))) (= (seq8 E r o n) (seq8 F r o n))) :pattern ((seq8 E r o n) (seq8 F r o n))))")
		ax("seq_sub", "(forall ((E (Array Ref Int)) (r Ref) (o Int) (n Int) (i Int) (j Int)) (! (=> (and (<= 0 i) (<= i j) (<= j n)) (= (bsub (seq8 E r o n) i j) (seq8 E r (+ o i) (- j i)))) :pattern ((bsub (seq8 E r o n) i j))))")
		{
			var ks []string
			for k := range c.strLits {
				ks = append(ks, k)
			}
			sort.Strings(ks)
			for _, k := range ks {
				c.strLitUnits(k, c.strLits[k])
			}
		}
		ax("seq_at", "(forall ((E (Array Ref Int)) (r Ref) (o Int) (n Int) (k Int)) (! (=> (and (<= 0 k) (< k n)) (= (bat (seq8 E r o n) k) (b8 (select E (elem r (+ o k)))))) :pattern ((bat (seq8 E r o n) k))))")
	}
}

// seqOf is the byte content of a []byte value in heap h.
func (c *Ctx) seqOf(h *Heap, sl string) string {
	c.needBytesTheory()
	comp := c.elemComp(types.Typ[types.Uint8])
	return fmt.Sprintf("(seq8 %s (sl_arr %s) (sl_off %s) (sl_len %s))", c.hget(h, comp), sl, sl, sl)
}
