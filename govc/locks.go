package main

import (
	"fmt"
	"go/token"
	"go/types"
	"sort"
	"strings"

	"golang.org/x/tools/go/ssa"
)

// Lock discipline (T-Locks): guarded-by declarations, once-only initialisation, no blocking
// channel operation while a named lock is held. Everything here generates ordinary named
// obligations over the ghost components $held and $once.

// guardKeyOfAddr: the declaration key of the location an address operand denotes ("" if none).
func guardKeyOfAddr(addr ssa.Value) string {
	switch a := addr.(type) {
	case *ssa.FieldAddr:
		st := deref(a.X.Type())
		s, ok := st.Underlying().(*types.Struct)
		if !ok {
			return ""
		}
		return typeString(st) + "." + s.Field(a.Field).Name()
	case *ssa.Global:
		return shortPath(a.Pkg.Pkg.Path()) + "." + a.Name()
	}
	return ""
}

// notAllocAtEntry: the object was allocated by this activation (nobody else can reach it yet).
func (e *Exec) notAllocAtEntry(ref string) string {
	c := e.c
	return fmt.Sprintf("(not (select %s (root %s)))", c.hget(c.entry, "$alloc"), ref)
}

// lockRefOf: address of the lock named by a guard declaration, for the object at base.
func (e *Exec) lockRefOf(g *GuardDecl, stT types.Type, base string) string {
	c := e.c
	if g.Kind == "var" {
		i := strings.LastIndex(g.By, ".")
		if i < 0 {
			e.unsupported("guarded var %s: lock %q must be pkg.var", g.Target, g.By)
		}
		for _, p := range c.P.Prog.AllPackages() {
			if shortPath(p.Pkg.Path()) == g.By[:i] {
				if gv := p.Var(g.By[i+1:]); gv != nil {
					return c.globalRef(gv).T
				}
			}
		}
		e.unsupported("guarded var %s: lock variable %s not found", g.Target, g.By)
	}
	st := stT.Underlying().(*types.Struct)
	for i := 0; i < st.NumFields(); i++ {
		if st.Field(i).Name() == g.By {
			if !isStruct(st.Field(i).Type()) {
				e.unsupported("guard of %s: %s is not a struct-typed lock field", g.Target, g.By)
			}
			return c.subRef(stT, i, base)
		}
	}
	e.unsupported("guard of %s: no field %s in %s", g.Target, g.By, typeString(stT))
	return ""
}

// isOnceBody: fn is a function literal whose only use is as the argument of (*sync.Once).Do.
func isOnceBody(fn *ssa.Function) bool {
	p := fn.Parent()
	if p == nil {
		return false
	}
	found := false
	for _, b := range p.Blocks {
		for _, ins := range b.Instrs {
			mc, ok := ins.(*ssa.MakeClosure)
			if !ok || mc.Fn != ssa.Value(fn) {
				continue
			}
			for _, ref := range *mc.Referrers() {
				switch r := ref.(type) {
				case *ssa.DebugRef:
				case ssa.CallInstruction:
					f := r.Common().StaticCallee()
					if f == nil || f.String() != "(*sync.Once).Do" {
						return false
					}
					found = true
				default:
					return false
				}
			}
		}
	}
	return found
}

// guardCheck is called for every load and store; addr is the address operand.
func (e *Exec) guardCheck(addr ssa.Value, isStore bool, st *State, pos token.Pos) {
	c := e.c
	if len(c.CS.Guards) == 0 {
		return
	}
	key := guardKeyOfAddr(addr)
	if key == "" {
		return
	}
	g := c.CS.Guards[key]
	if g == nil {
		return
	}
	if e.fn.Name() == "init" && e.fn.Parent() == nil {
		return // package initialisation is single-threaded
	}
	what := "load of "
	if isStore {
		what = "store to "
	}
	switch g.Kind {
	case "var":
		if _, ok := addr.(*ssa.Global); !ok {
			return
		}
		lock := e.lockRefOf(g, nil, "")
		c.compSort["$held"] = "(Array Ref Bool)"
		c.oblige("lock.guard", fmt.Sprintf("lock.guard[%s]@b%d", key, e.curBlock.Index), st.pc, c.hsel(st.heap, "$held", lock),
			what+key+" only while "+g.By+" is held", e.pos(pos))
	case "field":
		fa, ok := addr.(*ssa.FieldAddr)
		if !ok {
			return
		}
		base := e.val(fa.X).T
		lock := e.lockRefOf(g, deref(fa.X.Type()), base)
		c.compSort["$held"] = "(Array Ref Bool)"
		c.oblige("lock.guard", fmt.Sprintf("lock.guard[%s]@b%d", key, e.curBlock.Index), st.pc,
			or(c.hsel(st.heap, "$held", lock), e.notAllocAtEntry(base)),
			what+key+" only while "+g.By+" is held (or the object is not yet published)", e.pos(pos))
	case "once":
		fa, ok := addr.(*ssa.FieldAddr)
		if !ok {
			return
		}
		base := e.val(fa.X).T
		onceRef := e.lockRefOf(g, deref(fa.X.Type()), base)
		c.compSort["$once"] = "(Array Ref Bool)"
		done := c.hsel(st.heap, "$once", onceRef)
		if isStore {
			goal := e.notAllocAtEntry(base)
			if isOnceBody(e.fn) {
				goal = or(not(done), goal)
			}
			c.oblige("lock.once", fmt.Sprintf("lock.once-store[%s]@b%d", key, e.curBlock.Index), st.pc, goal,
				"store to "+key+" only inside the function run by "+g.By+".Do (or before the object is published)", e.pos(pos))
		} else {
			c.oblige("lock.once", fmt.Sprintf("lock.once-load[%s]@b%d", key, e.curBlock.Index), st.pc,
				or(done, e.notAllocAtEntry(base)),
				"load of "+key+" only after "+g.By+".Do has completed on this path", e.pos(pos))
		}
	}
}

// noLockCheck: at a blocking channel operation none of the contract's nolock locks is held.
func (e *Exec) noLockCheck(st *State, what string, pos token.Pos) {
	c := e.c
	for i, cl := range e.con.NoLock {
		sc := e.scope(st.heap, c.entry)
		sc.where = "nolock " + cl.Src
		v := sc.eval(cl.E)
		c.compSort["$held"] = "(Array Ref Bool)"
		c.oblige("lock.nolock", fmt.Sprintf("lock.nolock[%d]@b%d", i+1, e.curBlock.Index), st.pc, not(c.hsel(st.heap, "$held", v.T)),
			what+" while "+cl.Src+" is not held (no blocking under the lock)", e.pos(pos))
	}
}

// onceDo models (*sync.Once).Do(f): if the Once has not completed, f runs (under its contract) and
// the Once completes; otherwise nothing happens.
func (e *Exec) onceDo(common *ssa.CallCommon, args []Val, st *State, pos token.Pos) {
	c := e.c
	c.compSort["$once"] = "(Array Ref Bool)"
	onceRef := args[0].T
	e.safety("nil", st, not(fmt.Sprintf("(= %s nil)", onceRef)), "nil *sync.Once", pos)
	done := c.hsel(st.heap, "$once", onceRef)
	doneN := c.fresh("oncedone", SBool)
	c.fact(fmt.Sprintf("(= %s %s)", doneN, done))
	fnv := args[1]
	sub := State{pc: c.namePC(and(st.pc, not(doneN))), heap: st.heap}
	inner := &ssa.CallCommon{Value: common.Args[1]}
	if fnv.Fn == nil && common.Args[1] != nil {
		e.safety("nil", &sub, not(fmt.Sprintf("(= %s nilfn)", fnv.T)), "nil function passed to Once.Do", pos)
	}
	e.doCall(inner, fnv, nil, nil, &sub, pos)
	merged := c.hmerge([]string{doneN, "true"}, []*Heap{st.heap, sub.heap})
	st.heap = c.hstore(merged, "$once", onceRef, "true")
	c.assumed["extern (*sync.Once).Do (modelled: runs f at most once, then completes)"] = true
}

// guardCoverage: every function of zap that touches a guarded location must be under contract
// for the property (so that its accesses yield lock.guard obligations). Returns one message per
// uncovered function.
func guardCoverage(P *Program, CS *Contracts, prop string) []string {
	var out []string
	if len(CS.Guards) == 0 {
		return nil
	}
	var ids []string
	for id := range P.Funcs {
		ids = append(ids, id)
	}
	sort.Strings(ids)
	for _, id := range ids {
		fn := P.Funcs[id]
		if fn.Blocks == nil || fn.Synthetic != "" || !P.isZapPkg(pkgOf(fn)) {
			continue
		}
		if fn.Name() == "init" && fn.Parent() == nil {
			continue
		}
		touched := map[string]bool{}
		for _, b := range fn.Blocks {
			for _, ins := range b.Instrs {
				var addr ssa.Value
				switch x := ins.(type) {
				case *ssa.UnOp:
					if x.Op == token.MUL {
						addr = x.X
					}
				case *ssa.Store:
					addr = x.Addr
				case *ssa.FieldAddr:
					// address taken for another purpose than a direct load/store
					direct := true
					for _, r := range *x.Referrers() {
						switch rr := r.(type) {
						case *ssa.UnOp, *ssa.DebugRef:
						case *ssa.Store:
							if rr.Addr != ssa.Value(x) {
								direct = false
							}
						default:
							direct = false
						}
					}
					if !direct {
						addr = x
					}
				}
				if addr == nil {
					continue
				}
				if k := guardKeyOfAddr(addr); k != "" {
					if g := CS.Guards[k]; g != nil && hasProp(g.Props, prop) {
						touched[k] = true
					}
				}
			}
		}
		if len(touched) == 0 {
			continue
		}
		con := CS.ByID["func "+id]
		if con == nil && fn.Origin() != nil {
			con = CS.ByID["func "+shortID(fn.Origin().String())]
		}
		var ks []string
		for k := range touched {
			ks = append(ks, k)
		}
		sort.Strings(ks)
		switch {
		case con == nil:
			out = append(out, fmt.Sprintf("%s accesses %s but has no contract", id, strings.Join(ks, ", ")))
		case con.Flags["trusted"]:
			out = append(out, fmt.Sprintf("%s accesses %s but its contract is trusted (body not verified)", id, strings.Join(ks, ", ")))
		case !hasProp(con.Props, prop):
			out = append(out, fmt.Sprintf("%s accesses %s but its contract is not checked for %s", id, strings.Join(ks, ", "), prop))
		}
	}
	return out
}

func hasProp(ps []string, p string) bool {
	for _, x := range ps {
		if x == p {
			return true
		}
	}
	return false
}

// initLocks: the zero value of a sync.Mutex / RWMutex is unlocked, of a sync.Once not done.
func (e *Exec) initLocks(st *State, ref string, t types.Type) {
	c := e.c
	s, ok := t.Underlying().(*types.Struct)
	if !ok {
		return
	}
	for i := 0; i < s.NumFields(); i++ {
		ft := s.Field(i).Type()
		if !isStruct(ft) {
			continue
		}
		sub := c.subRef(t, i, ref)
		switch typeString(ft) {
		case "sync.Mutex", "sync.RWMutex":
			c.compSort["$held"] = "(Array Ref Bool)"
			st.heap = c.hstore(st.heap, "$held", sub, "false")
		case "sync.Once":
			c.compSort["$once"] = "(Array Ref Bool)"
			st.heap = c.hstore(st.heap, "$once", sub, "false")
		default:
			e.initLocks(st, sub, ft)
		}
	}
}

// ---------------------------------------------------------------- type invariants

// typeInvOf evaluates the declared invariant of t (if any) for value v in heap h.
func (e *Exec) typeInvOf(t types.Type, v Val, h *Heap) (string, *TypeInv) {
	c := e.c
	ti := c.CS.TypeInvs[typeString(t)]
	if ti == nil {
		return "", nil
	}
	sc := &Scope{e: e, c: c, cur: h, old: h, params: map[string]Val{ti.Var: v}, names: map[string]Val{}, pkg: pkgOfType(t, pkgOf(e.fn)), tracks: map[string]*trackInfo{}}
	return e.evalBool(sc, ti.C), ti
}

func pkgOfType(t types.Type, dflt *types.Package) *types.Package {
	if p, ok := t.(*types.Pointer); ok {
		t = p.Elem()
	}
	if n, ok := t.(*types.Named); ok && n.Obj().Pkg() != nil {
		return n.Obj().Pkg()
	}
	return dflt
}

// typeInvStableFields: struct fields mentioned by some type invariant ("T.f" keys). They may be
// stored to only while the object is not yet published.
func (cs *Contracts) typeInvStableFields() map[string]bool {
	if cs.stable != nil {
		return cs.stable
	}
	cs.stable = map[string]bool{}
	for _, ti := range cs.TypeInvs {
		base := strings.TrimPrefix(ti.Type, "*")
		var walk func(x Expr)
		walk = func(x Expr) {
			switch x := x.(type) {
			case *ESel:
				if id, ok := x.X.(*EIdent); ok && id.Name == ti.Var {
					cs.stable[base+"."+x.Name] = true
				}
				walk(x.X)
			case *EUn:
				walk(x.X)
			case *EBin:
				walk(x.X)
				walk(x.Y)
			case *ECall:
				for _, a := range x.Args {
					walk(a)
				}
			case *EIdx:
				walk(x.X)
				walk(x.I)
			case *EQuant:
				walk(x.Body)
			case *EIte:
				walk(x.C)
				walk(x.A)
				walk(x.B)
			case *EAddr:
				walk(x.X)
			}
		}
		walk(ti.C.E)
	}
	return cs.stable
}

// stableStoreCheck: a store to a field a type invariant depends on needs an unpublished object.
func (e *Exec) stableStoreCheck(addr ssa.Value, st *State, pos token.Pos) {
	c := e.c
	if len(c.CS.TypeInvs) == 0 {
		return
	}
	fa, ok := addr.(*ssa.FieldAddr)
	if !ok {
		return
	}
	key := guardKeyOfAddr(addr)
	if !c.CS.typeInvStableFields()[key] {
		return
	}
	base := e.val(fa.X).T
	cond := e.notAllocAtEntry(base)
	if _, ok := c.compSort["$unpub"]; ok {
		// or the object was handed in under requires unpublished(...)
		cond = fmt.Sprintf("(or %s %s)", cond, c.hsel(st.heap, "$unpub", base))
	}
	c.oblige("typeinv", fmt.Sprintf("typeinv.stable[%s]@b%d", key, e.curBlock.Index), st.pc, cond,
		"store to "+key+" (a field a type invariant depends on) only before the object is published", e.pos(pos))
}

// ---------------------------------------------------------------- immutable after publication

// A struct type declared "immutable" is written only while the object is unpublished: the ghost
// flag $unpub is set when the object is allocated and never cleared, and a function can know it
// for an object it did not allocate itself only from a precondition unpublished(x) - a chain that
// has to start at the allocation. Objects reachable by other goroutines (receivers of exported
// methods, values loaded from shared state) have no such chain, so no store to them verifies.

func (c *Ctx) isImmutableType(t types.Type) bool {
	if len(c.CS.Immutable) == 0 {
		return false
	}
	_, ok := c.CS.Immutable[typeString(t)]
	return ok
}

// immutableStoreCheck is called for every store.
func (e *Exec) immutableStoreCheck(addr ssa.Value, st *State, pos token.Pos) {
	c := e.c
	if len(c.CS.Immutable) == 0 {
		return
	}
	fa, ok := addr.(*ssa.FieldAddr)
	if !ok {
		return
	}
	stT := deref(fa.X.Type())
	if !c.isImmutableType(stT) {
		return
	}
	base := e.val(fa.X).T
	c.compSort["$unpub"] = "(Array Ref Bool)"
	key := guardKeyOfAddr(addr)
	c.oblige("lock.immutable", fmt.Sprintf("lock.immutable[%s]@b%d", key, e.curBlock.Index), st.pc, c.hsel(st.heap, "$unpub", base),
		"store to "+key+" only while the object is unpublished (allocated here, or handed in under requires unpublished(...))", e.pos(pos))
}

// immutableCoverage: every zap function that stores to a field of an immutable type must be under
// contract for the property.
func immutableCoverage(P *Program, CS *Contracts, prop string) []string {
	var out []string
	if len(CS.Immutable) == 0 {
		return nil
	}
	var ids []string
	for id := range P.Funcs {
		ids = append(ids, id)
	}
	sort.Strings(ids)
	for _, id := range ids {
		fn := P.Funcs[id]
		if fn.Blocks == nil || fn.Synthetic != "" || !P.isZapPkg(pkgOf(fn)) {
			continue
		}
		touched := map[string]bool{}
		for _, b := range fn.Blocks {
			for _, ins := range b.Instrs {
				s, ok := ins.(*ssa.Store)
				if !ok {
					continue
				}
				fa, ok := s.Addr.(*ssa.FieldAddr)
				if !ok {
					continue
				}
				t := typeString(deref(fa.X.Type()))
				if props, ok := CS.Immutable[t]; ok && hasProp(props, prop) {
					if _, isAlloc := fa.X.(*ssa.Alloc); isAlloc {
						continue // composite literal / local copy: the object is allocated right here
					}
					touched[t] = true
				}
			}
		}
		if len(touched) == 0 {
			continue
		}
		con := CS.ByID["func "+id]
		var ks []string
		for k := range touched {
			ks = append(ks, k)
		}
		sort.Strings(ks)
		switch {
		case con == nil:
			out = append(out, fmt.Sprintf("%s stores to fields of %s but has no contract", id, strings.Join(ks, ", ")))
		case con.Flags["trusted"]:
			out = append(out, fmt.Sprintf("%s stores to fields of %s but its contract is trusted (body not verified)", id, strings.Join(ks, ", ")))
		case !hasProp(con.Props, prop):
			out = append(out, fmt.Sprintf("%s stores to fields of %s but its contract is not checked for %s", id, strings.Join(ks, ", "), prop))
		}
	}
	return out
}

// atomicCoverage: every field declared "atomic" must exist and have a sync/atomic type (value or pointer).
func atomicCoverage(P *Program, CS *Contracts, prop string) []string {
	var out []string
	var keys []string
	for k, props := range CS.Atomics {
		if hasProp(props, prop) {
			keys = append(keys, k)
		}
	}
	sort.Strings(keys)
	for _, k := range keys {
		i := strings.LastIndex(k, ".")
		if i < 0 {
			out = append(out, fmt.Sprintf("atomic %s: expected pkg.Type.field", k))
			continue
		}
		tname, fname := k[:i], k[i+1:]
		var st *types.Struct
		for _, p := range P.Prog.AllPackages() {
			if !P.isZapPkg(p.Pkg) {
				continue
			}
			j := strings.LastIndex(tname, ".")
			if j < 0 || shortPath(p.Pkg.Path()) != tname[:j] {
				continue
			}
			if obj := p.Pkg.Scope().Lookup(tname[j+1:]); obj != nil {
				if s, ok := obj.Type().Underlying().(*types.Struct); ok {
					st = s
				}
			}
		}
		if st == nil {
			out = append(out, fmt.Sprintf("atomic %s: struct type %s not found", k, tname))
			continue
		}
		found := false
		for f := 0; f < st.NumFields(); f++ {
			if st.Field(f).Name() != fname {
				continue
			}
			found = true
			ft := st.Field(f).Type()
			if pt, ok := ft.(*types.Pointer); ok {
				ft = pt.Elem()
			}
			n, ok := ft.(*types.Named)
			if !ok || n.Obj().Pkg() == nil || n.Obj().Pkg().Path() != "sync/atomic" {
				out = append(out, fmt.Sprintf("%s is shared between goroutines without a lock but its type %s is not a sync/atomic type", k, typeString(st.Field(f).Type())))
			}
		}
		if !found {
			out = append(out, fmt.Sprintf("atomic %s: no such field", k))
		}
	}
	return out
}
