package main

import (
	"encoding/json"
	"flag"
	"fmt"
	"os"
	"os/exec"
	"path/filepath"
	"sort"
	"strconv"
	"strings"
	"time"

	"golang.org/x/tools/go/ssa"
)

type funcReport struct {
	ID          string   `json:"id"`
	Arith       string   `json:"arith"`
	Obligations int      `json:"obligations"`
	Discharged  int      `json:"discharged"`
	Notes       []string `json:"notes,omitempty"`
	Error       string   `json:"error,omitempty"`
}

type finding struct {
	kind, prop, obligation, text string
}

func loadFindings(path string) []finding {
	b, err := os.ReadFile(path)
	if err != nil {
		return nil
	}
	var out []finding
	for _, l := range strings.Split(string(b), "\n") {
		l = strings.TrimSpace(l)
		if l == "" || strings.HasPrefix(l, "#") {
			continue
		}
		var f finding
		switch {
		case strings.HasPrefix(l, "finding:"):
			f.kind = "finding"
			l = strings.TrimSpace(strings.TrimPrefix(l, "finding:"))
		case strings.HasPrefix(l, "fixed:"):
			f.kind = "fixed"
			l = strings.TrimSpace(strings.TrimPrefix(l, "fixed:"))
		default:
			continue
		}
		for _, w := range strings.Fields(l) {
			if strings.HasPrefix(w, "property=") {
				f.prop = strings.TrimPrefix(w, "property=")
			}
			if strings.HasPrefix(w, "obligation=") {
				f.obligation = strings.TrimPrefix(w, "obligation=")
			}
		}
		f.text = l
		out = append(out, f)
	}
	return out
}

func main() {
	if len(os.Args) < 2 {
		fmt.Fprintln(os.Stderr, "usage: govc check|func|list ...")
		os.Exit(2)
	}
	switch os.Args[1] {
	case "check":
		os.Exit(cmdCheck(os.Args[2:]))
	case "func":
		os.Exit(cmdFunc(os.Args[2:]))
	case "replay":
		os.Exit(cmdReplay(os.Args[2:]))
	case "list":
		// govc list [-exp] <substring>: function ids as used in contracts
		exp := len(os.Args) > 2 && os.Args[2] == "-exp"
		P, _, err := loadAll("/repo", exp)
		if err != nil {
			fmt.Println(err)
			os.Exit(2)
		}
		var ids []string
		for id, f := range P.Funcs {
			if strings.Contains(id, os.Args[len(os.Args)-1]) && f.Blocks != nil {
				ids = append(ids, id)
			}
		}
		sort.Strings(ids)
		for _, id := range ids {
			fmt.Println(id)
		}
	default:
		fmt.Fprintln(os.Stderr, "unknown command")
		os.Exit(2)
	}
}

func verifRoot() string {
	if v := os.Getenv("VERIF_ROOT"); v != "" {
		return v
	}
	exe, err := os.Executable()
	if err == nil {
		return filepath.Dir(filepath.Dir(exe))
	}
	return "/verif"
}

func loadAll(repo string, exp bool) (*Program, *Contracts, error) {
	dir := repo
	if exp {
		dir = filepath.Join(repo, "exp")
	}
	P, err := loadProgram(dir, "verif")
	if err != nil {
		return nil, nil, err
	}
	if err := P.loadSpecFiles(filepath.Join(verifRoot(), "contracts", "std")); err != nil {
		return nil, nil, err
	}
	CS, err := parseContracts(P.ContractText)
	if err != nil {
		return nil, nil, err
	}
	return P, CS, nil
}

func cmdFunc(args []string) int {
	fs := flag.NewFlagSet("func", flag.ExitOnError)
	repo := fs.String("repo", "/repo", "repository")
	exp := fs.Bool("exp", false, "load the exp module")
	timeout := fs.Int("timeout", 10, "solver timeout (s)")
	dump := fs.Bool("dump", false, "print SMT of failing obligations")
	fs.Parse(args)
	P, CS, err := loadAll(*repo, *exp)
	if err != nil {
		fmt.Fprintln(os.Stderr, "load:", err)
		return 2
	}
	rc := 0
	for _, id := range fs.Args() {
		con := CS.ByID["func "+id]
		var c *Ctx
		var err error
		if con == nil {
			if lc := CS.ByID["lemma "+id]; lc != nil {
				con = lc
			}
		}
		if con == nil && strings.HasPrefix(id, "theory:") {
			for _, th := range CS.Theories {
				if "theory:"+th.Name == id {
					con = &Contract{Kind: "lemma", ID: id, Flags: map[string]bool{"$theory": true}}
				}
			}
		}
		if con == nil {
			fmt.Printf("no contract for %s\n", id)
			rc = 1
			continue
		}
		var fns []*ssa.Function
		if con.Kind != "lemma" {
			fns = P.targetsOf(id)
			if len(fns) == 0 {
				fmt.Printf("function %s not found\n", id)
				rc = 1
				continue
			}
		} else {
			fns = []*ssa.Function{nil}
		}
		for _, fn := range fns {
		if con.Flags["$theory"] {
			for _, th := range CS.Theories {
				if "theory:"+th.Name == id {
					c, err = verifyTheory(P, CS, th)
				}
			}
		} else if con.Kind == "lemma" {
			c, err = verifyLemma(P, CS, con)
		} else {
			c, err = verifyFunction(P, CS, fn, con)
		}
		if err != nil {
			fmt.Printf("%s: %v\n", id, err)
			rc = 1
			continue
		}
		out := filepath.Join(os.TempDir(), "govc-func", sanitize(id))
		os.RemoveAll(out)
		dischargeAll([]*Ctx{c}, out, *timeout, 6, false)
		for _, o := range c.obls {
			fmt.Printf("%-12s %-9s %6dms  %s   [%s]\n", o.Verdict, o.Solver, o.Ms, o.Name, o.Pos)
			if o.Verdict != "discharged" && o.Verdict != "reachable" && o.Verdict != "reach-unknown" {
				rc = 1
				fmt.Printf("      %s\n      file: %s\n", o.Descr, o.File)
				if *dump && o.Model != "" {
					fmt.Println(truncate(o.Model, 3000))
				}
			}
		}
		for _, u := range c.unsupported {
			fmt.Println("   note:", u)
		}
		}
	}
	return rc
}

func cmdCheck(args []string) int {
	fs := flag.NewFlagSet("check", flag.ExitOnError)
	repo := fs.String("repo", "/repo", "repository")
	prop := fs.String("prop", "", "property id")
	tier := fs.String("tier", "quick", "quick|thorough")
	scratch := fs.String("scratch", "", "write evidence/out under this directory instead of /verif (self-tests on mutated copies)")
	fs.Parse(args)
	if t := os.Getenv("VERIF_TIER"); t != "" && *tier == "" {
		*tier = t
	}
	seed := 0
	if s := os.Getenv("VERIF_SEED"); s != "" {
		seed, _ = strconv.Atoi(s)
	}
	t0 := time.Now()
	root := verifRoot()
	croot := root // where contracts/specs/known findings live
	if *scratch != "" {
		root = *scratch
	}
	_ = croot
	exp := *prop == "C18" || *prop == "C03" // the exp module (zapslog, zapfield) is loaded for these; it pulls in zap and zapcore as dependencies
	violations := 0
	var vioLines []string
	replayDir := filepath.Join(root, "out", "replay", *prop)
	os.RemoveAll(replayDir)
	os.MkdirAll(replayDir, 0o755)
	writeReplay := func(name string, payload map[string]interface{}) string {
		p := filepath.Join(replayDir, sanitize(truncate(name, 120))+".json")
		b, _ := json.MarshalIndent(payload, "", " ")
		os.WriteFile(p, b, 0o644)
		return p
	}
	violation := func(name string, payload map[string]interface{}, reproduced bool) {
		violations++
		p := writeReplay(name, payload)
		l := fmt.Sprintf("VIOLATION property=%s replay=%s", *prop, p)
		if !reproduced {
			l += " no-failing-input-found"
		}
		vioLines = append(vioLines, l)
	}

	P, CS, err := loadAll(*repo, exp)
	if err != nil {
		// the tree no longer loads (or a contract file is malformed)
		violation("load", map[string]interface{}{"obligation": "load", "error": err.Error()}, false)
		writeEvidence(root, *prop, *tier, seed, nil, nil, nil, time.Since(t0).Seconds(), violations, []string{"load failed: " + err.Error()}, nil, 0, 0)
		for _, l := range vioLines {
			fmt.Println(l)
		}
		return 1
	}
	findings := loadFindings(filepath.Join(croot, "known_findings.txt"))
	known := map[string]finding{}
	for _, f := range findings {
		if f.kind == "finding" && f.prop == *prop {
			known[f.obligation] = f
		}
	}

	cons := CS.funcsForProp(*prop)
	var ctxs []*Ctx
	var reports []*funcReport
	repByFn := map[string]*funcReport{}
	if len(cons) == 0 {
		violation("no-contracts", map[string]interface{}{"obligation": "no-contracts", "error": "no function under contract is tagged with this property"}, false)
	}
	verifyCons := func(P *Program, CS *Contracts, cons []*Contract) {
		for _, con := range cons {
			rep := &funcReport{ID: con.ID, Arith: con.Arith}
			if rep.Arith == "" {
				rep.Arith = "int"
			}
			reports = append(reports, rep)
			repByFn[con.ID] = rep
			if con.Kind == "lemma" {
				c, err := verifyLemma(P, CS, con)
				if err != nil {
					rep.Error = err.Error()
					violation("unverifiable:"+con.ID, map[string]interface{}{"obligation": "vc-generation", "function": con.ID, "error": err.Error()}, false)
					continue
				}
				ctxs = append(ctxs, c)
				continue
			}
			fns := P.targetsOf(con.ID)
			if len(fns) == 0 {
				rep.Error = "contract binds to no function"
				violation("unbound:"+con.ID, map[string]interface{}{"obligation": "unbound-contract", "function": con.ID, "contract": fmt.Sprintf("%s:%d", con.File, con.Line), "error": rep.Error}, false)
				continue
			}
			if con.Flags["trusted"] {
				rep.Notes = append(rep.Notes, "trusted: contract assumed, body not verified")
				continue
			}
			for _, fn := range fns {
				c, err := verifyFunction(P, CS, fn, con)
				if err != nil {
					rep.Error = err.Error()
					violation("unverifiable:"+shortID(fn.String()), map[string]interface{}{"obligation": "vc-generation", "function": shortID(fn.String()), "error": err.Error()}, false)
					continue
				}
				rep.Notes = append(rep.Notes, c.unsupported...)
				if len(fns) > 1 {
					rep.Notes = append(rep.Notes, "generic instance verified: "+shortID(fn.String()))
				}
				ctxs = append(ctxs, c)
			}

		}
	}
	verifyCons(P, CS, cons)
	var P2 *Program
	var CS2 *Contracts
	if *prop == "C09" {
		// the exp module (slog handler) is a separate Go module: second pass over its C09 contracts
		var err2 error
		P2, CS2, err2 = loadAll(*repo, true)
		if err2 != nil {
			violation("load-exp", map[string]interface{}{"obligation": "load", "error": err2.Error()}, false)
		} else {
			var cons2 []*Contract
			for _, con := range CS2.funcsForProp(*prop) {
				if strings.Contains(con.File, "/exp/") {
					cons2 = append(cons2, con)
				}
			}
			verifyCons(P2, CS2, cons2)
		}
	}
	// background theories used by some verification condition: their proved axioms are obligations of this check
	{
		used := map[string]bool{}
		for _, c := range ctxs {
			for t := range c.theoriesUsed {
				used[t] = true
			}
		}
		for _, th := range CS.Theories {
			if !used[th.Name] || len(th.Proved) == 0 {
				continue
			}
			rep := &funcReport{ID: "theory:" + th.Name, Arith: "int"}
			rep.Notes = append(rep.Notes, fmt.Sprintf("background theory: %d axioms proved here (directly or by induction), %d definitional, %d trusted", len(th.Proved), len(th.Defs), len(th.Axioms)))
			reports = append(reports, rep)
			repByFn[rep.ID] = rep
			c, err := verifyTheory(P, CS, th)
			if err != nil {
				rep.Error = err.Error()
				violation("unverifiable:"+rep.ID, map[string]interface{}{"obligation": "vc-generation", "function": rep.ID, "error": err.Error()}, false)
				continue
			}
			ctxs = append(ctxs, c)
		}
	}
	covSeen := map[string]bool{}
	for _, msg := range immutableCoverage(P, CS, *prop) {
		covSeen[msg] = true
		violation("lock.coverage:"+truncate(msg, 80), map[string]interface{}{"obligation": "lock.coverage", "error": msg}, false)
	}
	if P2 != nil {
		for _, msg := range immutableCoverage(P2, CS2, *prop) {
			if !covSeen[msg] && strings.Contains(msg, "exp/") {
				violation("lock.coverage:"+truncate(msg, 80), map[string]interface{}{"obligation": "lock.coverage", "error": msg}, false)
			}
		}
	}
	// contract-level axioms with a proof method: obligations of this check when some verification condition used them
	{
		used := map[string]bool{}
		for _, c := range ctxs {
			for a := range c.axiomsUsed {
				used[a] = true
			}
		}
		anyProved := false
		for _, ax := range CS.Axioms {
			if ax.Proof != "" && used[ax.Name] {
				anyProved = true
			}
		}
		if anyProved {
			rep := &funcReport{ID: "axioms:proved", Arith: "int"}
			reports = append(reports, rep)
			repByFn[rep.ID] = rep
			c, n, err := verifyAxioms(P, CS, used)
			if err != nil {
				rep.Error = err.Error()
				violation("unverifiable:"+rep.ID, map[string]interface{}{"obligation": "vc-generation", "function": rep.ID, "error": err.Error()}, false)
			} else {
				rep.Notes = append(rep.Notes, fmt.Sprintf("%d contract-level axioms discharged here (directly or by induction over the naturals) from the axioms declared before them", n))
				ctxs = append(ctxs, c)
			}
		}
	}
	for _, msg := range atomicCoverage(P, CS, *prop) {
		violation("lock.atomic:"+truncate(msg, 80), map[string]interface{}{"obligation": "lock.atomic", "error": msg}, false)
	}
	for _, msg := range guardCoverage(P, CS, *prop) {
		violation("lock.coverage:"+truncate(msg, 80), map[string]interface{}{"obligation": "lock.coverage", "error": msg}, false)
	}
	timeout := 45 // the slowest obligation on the unchanged tree takes ~8 s on an idle machine; headroom for a loaded one
	if *tier == "thorough" {
		timeout = 120
	}
	outDir := filepath.Join(root, "out", "smt", *prop)
	os.RemoveAll(outDir)
	dischargeAll(ctxs, outDir, timeout, 8, *tier == "thorough")
	// keep the disk footprint small: the query files of obligations that were discharged are not needed again
	// (a failing obligation keeps its files: they are what the replay file points to)
	if os.Getenv("GOVC_KEEP_SMT") == "" {
		for _, c := range ctxs {
			for _, o := range c.obls {
				if o.File != "" && (o.Verdict == "discharged" || o.Verdict == "reachable") {
					os.Remove(o.File)
					os.Remove(strings.TrimSuffix(o.File, ".smt2") + ".refute.smt2")
				}
			}
		}
	}

	// classify
	total, discharged := 0, 0
	byBackend := map[string]int{}
	var solverMs int64
	var samples []map[string]interface{}
	assumed := map[string]bool{}
	axioms := map[string]bool{}
	var knownLines []string
	vac := 0
	for _, c := range ctxs {
		rep := repByFn[c.con.ID]
		for k := range c.assumed {
			assumed[k] = true
		}
		for k := range c.axiomsUsed {
			axioms[k] = true
		}
		for _, o := range c.obls {
			solverMs += o.Ms
			if o.Expect != "" {
				vac++
				if o.Verdict == "vacuous" {
					violation(o.Name, map[string]interface{}{"obligation": o.Name, "kind": "vacuity", "descr": o.Descr, "smt": o.File, "error": "contract is vacuous: " + o.Descr}, false)
				}
				continue
			}
			if kf, ok := known[o.Name]; ok {
				if o.Verdict != "discharged" {
					knownLines = append(knownLines, fmt.Sprintf("KNOWN-FINDING: property=%s %s", *prop, kf.text))
				} else {
					knownLines = append(knownLines, fmt.Sprintf("NOTE: known finding no longer reproduces (obligation now discharged): %s", kf.text))
				}
				continue
			}
			total++
			rep.Obligations++
			if o.Verdict == "discharged" {
				discharged++
				rep.Discharged++
				byBackend[o.Solver]++
				if len(samples) < 6 && o.Solver != "trivial" {
					samples = append(samples, map[string]interface{}{"obligation": o.Name, "kind": o.Kind, "verdict": o.Verdict, "solver": o.Solver, "ms": o.Ms, "what": truncate(o.Descr, 200)})
				}
				continue
			}
			payload := map[string]interface{}{"obligation": o.Name, "kind": o.Kind, "verdict": o.Verdict, "descr": o.Descr, "source": o.Pos, "smt": o.File, "solver": o.Solver, "model": truncate(o.Model, 20000), "solver_output": truncate(o.Output, 4000)}
			reproduced := false
			if o.Verdict == "refuted" {
				reproduced = replayObligation(root, *repo, *prop, c, o, payload)
			}
			violation(o.Name, payload, reproduced)
		}
	}
	// ground-axiom tests: finite instances of assumed facts, executed against the real libraries
	groundRun, groundFail, groundOut := runGroundTests(croot, *prop)
	if groundFail > 0 {
		violation("ground-axioms", map[string]interface{}{"obligation": "ground-axiom-tests", "error": "an assumed ground fact is false for the real library", "output": groundOut}, true)
	}
	// bounded cross-check of zap.Any (thorough tier only; zap.Any is proved since session 4, this enumeration is kept as an independent
	// test of the generated contract table against the real code; never counted as proved)
	var bounded []*boundedResult
	if *prop == "C03" && *tier == "thorough" {
		br := boundedAny(root, *repo)
		bounded = append(bounded, br)
		if !br.Passed {
			violation("bounded:zap.Any", map[string]interface{}{"obligation": "bounded:zap.Any", "kind": "bounded", "bound": br.Bound, "output": br.Output, "test_file": br.TestFile}, strings.Contains(br.Output, "BOUNDED-VIOLATION"))
		}
	}
	boundedResults = bounded
	sort.Strings(knownLines)
	for _, l := range knownLines {
		fmt.Println(l)
	}
	for _, l := range vioLines {
		fmt.Println(l)
	}
	var assumedL, axiomL []string
	for k := range assumed {
		assumedL = append(assumedL, k)
	}
	provedAx := map[string]string{}
	for _, ax := range CS.Axioms {
		if ax.Proof != "" {
			provedAx[ax.Name] = ax.Proof
		}
	}
	for k := range axioms {
		if m, ok := provedAx[k]; ok {
			k += " (not assumed: discharged here as obligation axiom." + k + ", " + m + ")"
		}
		axiomL = append(axiomL, k)
	}
	sort.Strings(assumedL)
	sort.Strings(axiomL)
	groundTestsRun = groundRun
	for _, c := range ctxs {
		if c.con != nil && strings.HasPrefix(c.con.ID, "theory:") {
			for _, th := range CS.Theories {
				if "theory:"+th.Name != c.con.ID {
					continue
				}
				var pd []string
				for _, it := range th.Items {
					if it.Kind == "proof-def" {
						pd = append(pd, it.Name)
					}
				}
				extraTrusted = append(extraTrusted, fmt.Sprintf("theory %s: %d laws proved here as obligations (%s); they rest on the definitions above, on the proof-only definitions and restated sequence laws [%s], and on the induction principles for byte strings (empty / snoc) and naturals - all of which the Lean model of lean/ shows to be jointly satisfiable (./check C01)", th.Name, len(th.Proved), strings.Join(th.Proved, ", "), strings.Join(pd, ", ")))
			}
		}
	}
	writeEvidence(root, *prop, *tier, seed, reports, samples, byBackend, time.Since(t0).Seconds(), violations, assumedL, axiomL, total, discharged)
	fmt.Printf("property %s: %d functions under contract, %d obligations, %d discharged, %d vacuity checks, %d known findings, %d violations, %.1fs\n", *prop, len(reports), total, discharged, vac, len(knownLines), violations, time.Since(t0).Seconds())
	if violations > 0 {
		return 1
	}
	return 0
}

var groundTestsRun int
var boundedResults []*boundedResult
var extraTrusted []string

// runGroundTests executes /verif/ground tests named TestGround<PROP>_*.
func runGroundTests(root, prop string) (run, failed int, out string) {
	dir := filepath.Join(root, "ground")
	if _, err := os.Stat(dir); err != nil {
		return 0, 0, ""
	}
	cmd := exec.Command("go", "test", "-count=1", "-vet=off", "-v", "-run", "^TestGround"+prop+"_", "./...")
	cmd.Dir = dir
	cmd.Env = append(os.Environ(), "GOFLAGS=-mod=mod", "GOPROXY=off", "GOSUMDB=off", "GOTOOLCHAIN=local")
	b, _ := cmd.CombinedOutput()
	out = string(b)
	run = strings.Count(out, "--- PASS") + strings.Count(out, "--- FAIL")
	failed = strings.Count(out, "--- FAIL")
	if strings.Contains(out, "[build failed]") {
		failed++
	}
	return
}

func writeEvidence(root, prop, tier string, seed int, reports []*funcReport, samples []map[string]interface{}, byBackend map[string]int, wall float64, violations int, assumed, axioms []string, total, discharged int) {
	if samples == nil {
		samples = []map[string]interface{}{}
	}
	var fns []string
	for _, r := range reports {
		fns = append(fns, r.ID)
	}
	trusted := []string{
		"govc (this VC generator: go/ssa -> SMT-LIB translation, contract parser, heap/slice/interface encoding) and go/ssa's faithfulness to the compiler",
		"SMT solvers z3 4.8.12, z3 5.1.0, cvc5 1.0 (raced; any one unsat discharges)",
		"integers: exact machine arithmetic (wrap-around modelled) in the mode stated per function; contract-level arithmetic in int mode is mathematical",
		"termination is not proved; concurrency: sequential semantics only",
	}
	for _, a := range axioms {
		trusted = append(trusted, "axiom "+a)
	}
	trusted = append(trusted, extraTrusted...)
	cov := map[string]interface{}{
		"obligations":              total,
		"discharged":               discharged,
		"checker_cmd":              fmt.Sprintf("bin/govc check --prop %s --tier %s", prop, tier),
		"trusted_base":             trusted,
		"samples":                  samples,
		"functions_under_contract": reports,
		"by_backend":               byBackend,
		"assumed_contracts":        assumed,
		"ground_axiom_tests_run":   groundTestsRun,
	}
	if len(boundedResults) > 0 {
		cov["bounded"] = boundedResults
	}
	ev := map[string]interface{}{
		"property_id": prop,
		"tier":        tier,
		"seed":        seed,
		"level":       "proof",
		"coverage":    cov,
		"assumptions": append([]string{}, assumed...),
		"wall_s":      wall,
		"violations":  violations,
	}
	extra := filepath.Join(root, "props", prop+".json")
	if b, err := os.ReadFile(extra); err == nil {
		var m map[string]interface{}
		if json.Unmarshal(b, &m) == nil {
			for k, v := range m {
				cov[k] = v
			}
		}
	}
	os.MkdirAll(filepath.Join(root, "evidence"), 0o755)
	b, _ := json.MarshalIndent(ev, "", " ")
	os.WriteFile(filepath.Join(root, "evidence", prop+".json"), b, 0o644)
	_ = fns
}

