package main

import (
	"fmt"
	"go/ast"
	"go/token"
	"go/types"
	"os"
	"path/filepath"
	"regexp"
	"sort"
	"strings"

	"golang.org/x/tools/go/packages"
	"golang.org/x/tools/go/ssa"
	"golang.org/x/tools/go/ssa/ssautil"
)

// Program is the loaded zap code (both modules) in SSA form.
type Program struct {
	Fset  *token.FileSet
	Prog  *ssa.Program
	Pkgs  []*packages.Package
	Funcs map[string]*ssa.Function // short id -> function (incl. anonymous and instantiations)
	// contract comment blocks harvested from zz_contracts_verif.go files and /verif/contracts
	ContractText []contractSource
	zapPkgs      map[*types.Package]bool
	allNamed     []*types.Named
}

type contractSource struct {
	File  string
	Lines []string // lines with leading "//@" stripped
	Line0 []int    // source line numbers
}

const zapMod = "go.uber.org/zap"

// shortPath turns an import path into the form used in contract ids.
func shortPath(p string) string {
	if p == zapMod {
		return "zap"
	}
	if strings.HasPrefix(p, zapMod+"/") {
		return p[len(zapMod)+1:]
	}
	return p
}

// shortID rewrites ssa's function String() into the contract id form.
func shortID(s string) string {
	s = strings.ReplaceAll(s, zapMod+"/", "")
	s = strings.ReplaceAll(s, zapMod+".", "zap.")
	return s
}

func typeString(t types.Type) string {
	s := types.TypeString(t, func(p *types.Package) string { return shortPath(p.Path()) })
	// canonical names for the predeclared aliases
	s = aliasRe.ReplaceAllStringFunc(s, func(m string) string {
		if m == "byte" {
			return "uint8"
		}
		return "int32"
	})
	return s
}

var aliasRe = regexp.MustCompile(`\b(byte|rune)\b`)

func loadProgram(dir string, tags string) (*Program, error) {
	// type aliases (zap.Field = zapcore.Field) must denote the aliased type everywhere
	os.Setenv("GODEBUG", "gotypesalias=0")
	fset := token.NewFileSet()
	var all []*packages.Package
	{
		cfg := &packages.Config{
			Mode:       packages.LoadAllSyntax,
			Dir:        dir,
			Fset:       fset,
			BuildFlags: []string{"-tags=" + tags, "-mod=mod"},
			Env:        append(os.Environ(), "GOFLAGS=-mod=mod", "GOPROXY=off", "GOSUMDB=off", "GOTOOLCHAIN=local"),
			Tests:      false,
		}
		pkgs, err := packages.Load(cfg, "./...")
		if err != nil {
			return nil, err
		}
		var errs []string
		packages.Visit(pkgs, nil, func(p *packages.Package) {
			for _, e := range p.Errors {
				errs = append(errs, e.Error())
			}
		})
		if len(errs) > 0 {
			return nil, fmt.Errorf("load errors in %s: %s", dir, strings.Join(errs, "; "))
		}
		all = append(all, pkgs...)
	}
	prog, _ := ssautil.AllPackages(all, ssa.InstantiateGenerics|ssa.GlobalDebug)
	prog.Build()
	P := &Program{Fset: fset, Prog: prog, Pkgs: all, Funcs: map[string]*ssa.Function{}, zapPkgs: map[*types.Package]bool{}}
	seen := map[*packages.Package]bool{}
	var visit func(p *packages.Package)
	visit = func(p *packages.Package) {
		if seen[p] {
			return
		}
		seen[p] = true
		if p.PkgPath == zapMod || strings.HasPrefix(p.PkgPath, zapMod+"/") {
			P.zapPkgs[p.Types] = true
			for _, f := range p.Syntax {
				P.harvestContracts(f)
			}
		}
		for _, q := range p.Imports {
			visit(q)
		}
	}
	for _, p := range all {
		visit(p)
	}
	fns := ssautil.AllFunctions(prog)
	var list []*ssa.Function
	for f := range fns {
		list = append(list, f)
	}
	sort.Slice(list, func(i, j int) bool { return list[i].String() < list[j].String() })
	for _, f := range list {
		id := shortID(f.String())
		if old, ok := P.Funcs[id]; ok {
			// prefer the one that has a body and comes from the root-module load
			if old.Blocks != nil {
				continue
			}
		}
		P.Funcs[id] = f
	}
	return P, nil
}

func (P *Program) harvestContracts(f *ast.File) {
	fname := P.Fset.Position(f.Pos()).Filename
	if b := filepath.Base(fname); !(strings.HasPrefix(b, "zz_contracts") && strings.HasSuffix(b, "_verif.go")) {
		return
	}
	cs := contractSource{File: fname}
	for _, cg := range f.Comments {
		for _, c := range cg.List {
			t := c.Text
			if strings.HasPrefix(t, "//@") {
				cs.Lines = append(cs.Lines, strings.TrimPrefix(t, "//@"))
				cs.Line0 = append(cs.Line0, P.Fset.Position(c.Pos()).Line)
			}
		}
	}
	P.ContractText = append(P.ContractText, cs)
}

// loadSpecFiles reads *.spec files (assumed contracts for dependencies).
func (P *Program) loadSpecFiles(dir string) error {
	files, _ := filepath.Glob(filepath.Join(dir, "*.spec"))
	sort.Strings(files)
	for _, fn := range files {
		b, err := os.ReadFile(fn)
		if err != nil {
			return err
		}
		cs := contractSource{File: fn}
		for i, l := range strings.Split(string(b), "\n") {
			cs.Lines = append(cs.Lines, l)
			cs.Line0 = append(cs.Line0, i+1)
		}
		P.ContractText = append(P.ContractText, cs)
	}
	return nil
}

func (P *Program) isZapPkg(p *types.Package) bool {
	if p == nil {
		return false
	}
	return p.Path() == zapMod || strings.HasPrefix(p.Path(), zapMod+"/")
}

// targetsOf: the function a contract id names; for a generic function, its instantiations.
func (P *Program) targetsOf(id string) []*ssa.Function {
	fn := P.Funcs[id]
	if fn != nil && fn.TypeParams().Len() == 0 {
		return []*ssa.Function{fn}
	}
	var out []*ssa.Function
	var ids []string
	for k := range P.Funcs {
		ids = append(ids, k)
	}
	sort.Strings(ids)
	for _, k := range ids {
		f := P.Funcs[k]
		if o := f.Origin(); o != nil && shortID(o.String()) == id && f.Blocks != nil {
			out = append(out, f)
		}
	}
	if len(out) == 0 && fn != nil {
		return []*ssa.Function{fn}
	}
	return out
}

// pkgOfFile: the package whose directory holds the (contract) file, nil for files outside the module.
func (P *Program) pkgOfFile(file string) *types.Package {
	if file == "" {
		return nil
	}
	dir := filepath.Dir(file)
	var found *types.Package
	seen := map[*packages.Package]bool{}
	var visit func(p *packages.Package)
	visit = func(p *packages.Package) {
		if seen[p] || found != nil {
			return
		}
		seen[p] = true
		if len(p.GoFiles) > 0 && filepath.Dir(p.GoFiles[0]) == dir && p.Types != nil {
			found = p.Types
			return
		}
		for _, q := range p.Imports {
			visit(q)
		}
	}
	for _, p := range P.Pkgs {
		visit(p)
	}
	return found
}
