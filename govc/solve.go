package main

import (
	"bytes"
	"context"
	"fmt"
	"os"
	"os/exec"
	"path/filepath"
	"strings"
	"sync"
	"time"
)

type solverSpec struct {
	name    string
	argv    func(file string, timeoutS int) []string
	proofOK bool // an "unsat" from this solver discharges an obligation
}

var solvers = []solverSpec{
	{"z3-5.1.0", func(f string, t int) []string { return []string{"z3-new", fmt.Sprintf("-T:%d", t), f} }, true},
	{"z3-4.8.12", func(f string, t int) []string { return []string{"/usr/bin/z3", fmt.Sprintf("-T:%d", t), f} }, false},
	{"cvc5-1.0", func(f string, t int) []string {
		return []string{"cvc5", fmt.Sprintf("--tlimit=%d", t*1000), "--produce-models", f}
	}, true},
}

func (c *Ctx) smtText(o *Obligation) string { return c.smtTextQ(o, o.Expect == "sat") }

// smtTextQ renders the query; dropQ omits every quantified assertion (the
// quantifier-free weakening used for vacuity covers and for finding models).
func (c *Ctx) smtTextQ(o *Obligation, dropQ bool) string {
	var sb strings.Builder
	sb.WriteString("; obligation " + o.Name + "\n; " + o.Descr + "\n; " + o.Pos + "\n")
	sb.WriteString("(set-option :produce-models true)\n(set-logic ALL)\n")
	for _, d := range c.decls[:o.NDecls] {
		if dropQ && strings.Contains(d, "(forall ") {
			continue
		}
		sb.WriteString(d)
		sb.WriteString("\n")
	}
	var keep map[int]bool
	if c.anc != nil && o.Block >= 0 {
		keep = map[int]bool{}
		for b := range c.anc[o.Block] {
			keep[b] = true
		}
		for _, b2 := range o.Blocks {
			for b := range c.anc[b2] {
				keep[b] = true
			}
		}
	}
	for i, f := range c.facts[:o.NFacts] {
		if dropQ && strings.Contains(f, "(forall ") {
			continue
		}
		if keep != nil && c.factBlk[i] >= 0 && !keep[c.factBlk[i]] {
			continue // generated in a block that cannot reach this obligation: irrelevant on its paths
		}
		sb.WriteString("(assert ")
		sb.WriteString(f)
		sb.WriteString(")\n")
	}
	sb.WriteString("(assert " + o.PC + ")\n")
	sb.WriteString("(assert (not " + o.Goal + "))\n")
	sb.WriteString("(check-sat)\n(get-model)\n")
	return sb.String()
}

type solveResult struct {
	verdict string // unsat, sat, unknown
	solver  string
	ms      int64
	output  string
}

func runSolvers(file string, timeoutS int, all bool) (solveResult, []solveResult) {
	ctx, cancel := context.WithCancel(context.Background())
	defer cancel()
	ch := make(chan solveResult, len(solvers))
	for _, s := range solvers {
		s := s
		go func() {
			t0 := time.Now()
			argv := s.argv(file, timeoutS)
			cmd := exec.CommandContext(ctx, argv[0], argv[1:]...)
			var out bytes.Buffer
			cmd.Stdout = &out
			cmd.Stderr = &out
			cmd.Run()
			txt := out.String()
			first := strings.TrimSpace(strings.SplitN(txt, "\n", 2)[0])
			v := "unknown"
			if strings.Contains(txt, "(error") && !strings.Contains(first, "sat") {
				v = "unknown"
				txt = "SOLVER ERROR: " + txt
			}
			switch first {
			case "unsat":
				// z3 4.8.12 returned a spurious unsat on a satisfiable T-Bytes query
				// (see DESIGN.md, solver policy); its unsat answers are not trusted.
				if s.proofOK {
					v = "unsat"
				}
			case "sat":
				v = "sat"
			}
			ch <- solveResult{v, s.name, time.Since(t0).Milliseconds(), txt}
		}()
	}
	var results []solveResult
	best := solveResult{verdict: "unknown"}
	for range solvers {
		r := <-ch
		results = append(results, r)
		if r.verdict != "unknown" && best.verdict == "unknown" {
			best = r
			if !all {
				cancel()
				return best, results
			}
		}
	}
	if best.verdict == "unknown" {
		var sb strings.Builder
		var ms int64
		for _, r := range results {
			sb.WriteString(r.solver + ": " + truncate(strings.TrimSpace(r.output), 300) + "\n")
			if r.ms > ms {
				ms = r.ms
			}
		}
		best.output = sb.String()
		best.ms = ms
		best.solver = "none"
	}
	return best, results
}

// discharge runs all obligations of a context.
func dischargeAll(ctxs []*Ctx, outDir string, timeoutS int, par int, all bool) {
	type job struct {
		c *Ctx
		o *Obligation
	}
	var jobs []job
	for _, c := range ctxs {
		for _, o := range c.obls {
			jobs = append(jobs, job{c, o})
		}
	}
	os.MkdirAll(outDir, 0o755)
	var wg sync.WaitGroup
	sem := make(chan struct{}, par)
	for i, j := range jobs {
		wg.Add(1)
		sem <- struct{}{}
		go func(i int, j job) {
			defer wg.Done()
			defer func() { <-sem }()
			o := j.o
			if o.Goal == "true" && o.Expect == "" {
				o.Verdict = "discharged"
				o.Solver = "trivial"
				return
			}
			file := filepath.Join(outDir, fmt.Sprintf("%04d_%s.smt2", i, sanitize(truncate(o.Name, 100))))
			os.WriteFile(file, []byte(j.c.smtText(o)), 0o644)
			o.File = file
			tmo := timeoutS
			if o.Expect == "sat" {
				tmo = 3
			}
			if o.Expect == "consistent" {
				tmo = 3
			}
			r, rs := runSolvers(file, tmo, all && o.Expect == "")
			o.Solver = r.solver
			o.Ms = r.ms
			if all {
				// disagreement check
				seen := map[string]bool{}
				for _, x := range rs {
					if x.verdict != "unknown" {
						seen[x.verdict] = true
					}
				}
				if len(seen) > 1 {
					o.Verdict = "solver-disagreement"
					o.Output = "solvers disagree"
					return
				}
			}
			switch {
			case o.Expect == "consistent":
				switch r.verdict {
				case "unsat":
					o.Verdict = "vacuous"
				default:
					o.Verdict = "reachable"
				}
			case o.Expect == "sat":
				switch r.verdict {
				case "unsat":
					o.Verdict = "vacuous"
				case "sat":
					o.Verdict = "reachable"
				default:
					o.Verdict = "reach-unknown"
				}
			case r.verdict == "unsat":
				o.Verdict = "discharged"
			case r.verdict == "sat":
				o.Verdict = "refuted"
				o.Model = r.output
			default:
				o.Verdict = "undecided"
				o.Output = r.output
				// refutation form: same goal without the quantified hypotheses; a model of it
				// is a candidate counterexample (to be confirmed by replay on the real code)
				rf := strings.TrimSuffix(file, ".smt2") + ".refute.smt2"
				os.WriteFile(rf, []byte(j.c.smtTextQ(o, true)), 0o644)
				r2, _ := runSolvers(rf, 5, false)
				if r2.verdict == "sat" {
					o.Verdict = "refuted"
					o.Model = r2.output
					o.Solver = r2.solver + " (quantifier-free refutation form)"
					o.File = rf
				}
			}
		}(i, j)
	}
	wg.Wait()
}
