package main

import (
	"fmt"
)

// Heap is a persistent map from component names to SMT terms.
type Heap struct {
	id     int
	kind   int // 0 base, 1 set, 2 merge, 3 havoc-except
	parent *Heap
	name   string
	term   string
	conds  []string
	hs     []*Heap
	epoch  int
	keep   func(string) bool
	memo   map[string]string
}

func (c *Ctx) newBase() *Heap {
	c.heapID++
	c.epoch++
	return &Heap{id: c.heapID, kind: 0, epoch: c.epoch, memo: map[string]string{}}
}

func (c *Ctx) compSortOf(name string) Sort {
	s, ok := c.compSort[name]
	if !ok {
		panic(fmt.Sprintf("component %s has no sort", name))
	}
	return s
}

func (c *Ctx) hget(h *Heap, name string) string {
	if t, ok := h.memo[name]; ok {
		return t
	}
	var t string
	switch h.kind {
	case 0:
		t = q(fmt.Sprintf("%s!e%d", name, h.epoch))
		c.decl("base:"+t, fmt.Sprintf("(declare-const %s %s)", t, c.compSortOf(name)))
	case 1:
		if h.name == name {
			t = h.term
		} else {
			t = c.hget(h.parent, name)
		}
	case 2:
		ts := make([]string, len(h.hs))
		same := true
		for i, x := range h.hs {
			ts[i] = c.hget(x, name)
			if ts[i] != ts[0] {
				same = false
			}
		}
		if same {
			t = ts[0]
		} else {
			e := ts[len(ts)-1]
			for i := len(ts) - 2; i >= 0; i-- {
				if ts[i] == e {
					continue
				}
				e = fmt.Sprintf("(ite %s %s %s)", h.conds[i], ts[i], e)
			}
			t = c.fresh(name+"!m", c.compSortOf(name))
			c.defFact(fmt.Sprintf("(= %s %s)", t, e))
		}
	case 3:
		if h.keep(name) {
			t = c.hget(h.parent, name)
		} else {
			t = q(fmt.Sprintf("%s!e%d", name, h.epoch))
			c.decl("base:"+t, fmt.Sprintf("(declare-const %s %s)", t, c.compSortOf(name)))
		}
	}
	h.memo[name] = t
	return t
}

// hset binds a component to a new term (named by a fresh constant to keep terms small).
func (c *Ctx) hset(h *Heap, name, term string) *Heap {
	c.heapID++
	n := c.fresh(name+"!s", c.compSortOf(name))
	c.defFact(fmt.Sprintf("(= %s %s)", n, term))
	return &Heap{id: c.heapID, kind: 1, parent: h, name: name, term: n, memo: map[string]string{}}
}

// hsetRaw binds without introducing a definition (term must be a constant already).
func (c *Ctx) hsetRaw(h *Heap, name, term string) *Heap {
	c.heapID++
	return &Heap{id: c.heapID, kind: 1, parent: h, name: name, term: term, memo: map[string]string{}}
}

func (c *Ctx) hstore(h *Heap, comp, ref, val string) *Heap {
	return c.hset(h, comp, fmt.Sprintf("(store %s %s %s)", c.hget(h, comp), ref, val))
}

func (c *Ctx) hsel(h *Heap, comp, ref string) string {
	return fmt.Sprintf("(select %s %s)", c.hget(h, comp), ref)
}

func (c *Ctx) hmerge(conds []string, hs []*Heap) *Heap {
	if len(hs) == 1 {
		return hs[0]
	}
	all := true
	for _, h := range hs {
		if h != hs[0] {
			all = false
		}
	}
	if all {
		return hs[0]
	}
	c.heapID++
	return &Heap{id: c.heapID, kind: 2, conds: conds, hs: hs, memo: map[string]string{}}
}

func (c *Ctx) hhavocExcept(h *Heap, keep func(string) bool) *Heap {
	c.heapID++
	c.epoch++
	return &Heap{id: c.heapID, kind: 3, parent: h, epoch: c.epoch, keep: keep, memo: map[string]string{}}
}

// havocComp gives one component a fresh unconstrained value.
func (c *Ctx) hhavocComp(h *Heap, name string) *Heap {
	n := c.fresh(name+"!h", c.compSortOf(name))
	return c.hsetRaw(h, name, n)
}
