package main

import (
	"fmt"
	"math/big"
	"strings"
	"unicode"
)

// Contract expression AST.
type Expr interface{}

type EIdent struct{ Name string }
type EInt struct{ Val *big.Int }
type EStr struct{ Val string }
type EBool struct{ Val bool }
type ENil struct{}
type EUn struct {
	Op string
	X  Expr
}
type EBin struct {
	Op   string
	X, Y Expr
}
type ECall struct {
	Fn   string
	Args []Expr
}
type ESel struct {
	X    Expr
	Name string
}
type EIdx struct{ X, I Expr }
type QVar struct{ Name, Type string }
type EQuant struct {
	Forall bool
	Vars   []QVar
	Body   Expr
}
type ECount struct{ Name string }
type EAddr struct{ X Expr }
type EIte struct{ C, A, B Expr }
type EType struct{ T string } // type(<go type text>)

type etok struct {
	k string // "id","int","str","char","op","eof","type"
	s string
}

func lexExpr(src string) ([]etok, error) {
	var toks []etok
	i := 0
	rs := []rune(src)
	isIdStart := func(r rune) bool { return unicode.IsLetter(r) || r == '_' || r == '$' }
	isId := func(r rune) bool { return unicode.IsLetter(r) || unicode.IsDigit(r) || r == '_' || r == '$' }
	for i < len(rs) {
		r := rs[i]
		switch {
		case unicode.IsSpace(r):
			i++
		case r == '/' && i+1 < len(rs) && rs[i+1] == '/':
			i = len(rs) // trailing comment
		case isIdStart(r):
			j := i
			for j < len(rs) && isId(rs[j]) {
				j++
			}
			w := string(rs[i:j])
			if w == "type" && j < len(rs) && rs[j] == '(' {
				// raw type text until matching paren
				depth := 0
				k := j
				for k < len(rs) {
					if rs[k] == '(' {
						depth++
					} else if rs[k] == ')' {
						depth--
						if depth == 0 {
							break
						}
					}
					k++
				}
				if k >= len(rs) {
					return nil, fmt.Errorf("unterminated type(...)")
				}
				toks = append(toks, etok{"type", strings.TrimSpace(string(rs[j+1 : k]))})
				i = k + 1
				continue
			}
			toks = append(toks, etok{"id", w})
			i = j
		case unicode.IsDigit(r):
			j := i
			for j < len(rs) && (unicode.IsDigit(rs[j]) || unicode.IsLetter(rs[j]) || rs[j] == '_') {
				j++
			}
			toks = append(toks, etok{"int", string(rs[i:j])})
			i = j
		case r == '"':
			j := i + 1
			var sb strings.Builder
			for j < len(rs) && rs[j] != '"' {
				if rs[j] == '\\' && j+1 < len(rs) {
					j++
					switch rs[j] {
					case 'n':
						sb.WriteRune('\n')
					case 't':
						sb.WriteRune('\t')
					case 'r':
						sb.WriteRune('\r')
					case '\\':
						sb.WriteRune('\\')
					case '"':
						sb.WriteRune('"')
					default:
						sb.WriteRune(rs[j])
					}
				} else {
					sb.WriteRune(rs[j])
				}
				j++
			}
			if j >= len(rs) {
				return nil, fmt.Errorf("unterminated string")
			}
			toks = append(toks, etok{"str", sb.String()})
			i = j + 1
		case r == '\'':
			// char literal
			j := i + 1
			var v rune
			if j < len(rs) && rs[j] == '\\' {
				j++
				switch rs[j] {
				case 'n':
					v = '\n'
				case 't':
					v = '\t'
				case 'r':
					v = '\r'
				case '\\':
					v = '\\'
				case '\'':
					v = '\''
				default:
					v = rs[j]
				}
			} else if j < len(rs) {
				v = rs[j]
			}
			j++
			if j >= len(rs) || rs[j] != '\'' {
				return nil, fmt.Errorf("bad char literal")
			}
			toks = append(toks, etok{"int", fmt.Sprint(int(v))})
			i = j + 1
		default:
			ops := []string{"<==>", "==>", "::", "&&", "||", "==", "!=", "<=", ">=", "<<", ">>", "&^"}
			matched := false
			for _, op := range ops {
				if strings.HasPrefix(string(rs[i:min(i+len(op), len(rs))]), op) {
					toks = append(toks, etok{"op", op})
					i += len(op)
					matched = true
					break
				}
			}
			if matched {
				continue
			}
			if strings.ContainsRune("+-*/%&|^!<>()[].,#?:", r) {
				toks = append(toks, etok{"op", string(r)})
				i++
				continue
			}
			return nil, fmt.Errorf("unexpected character %q", r)
		}
	}
	toks = append(toks, etok{"eof", ""})
	return toks, nil
}

type eparser struct {
	toks []etok
	p    int
}

func parseExpr(src string) (e Expr, err error) {
	toks, err := lexExpr(src)
	if err != nil {
		return nil, fmt.Errorf("%v in %q", err, src)
	}
	ps := &eparser{toks: toks}
	defer func() {
		if r := recover(); r != nil {
			if pe, ok := r.(parseErr); ok {
				err = fmt.Errorf("%s in %q", string(pe), src)
				return
			}
			panic(r)
		}
	}()
	e = ps.ternary()
	if ps.peek().k != "eof" {
		ps.fail("trailing tokens at %q", ps.peek().s)
	}
	return e, nil
}

type parseErr string

func (p *eparser) fail(f string, a ...interface{}) { panic(parseErr(fmt.Sprintf(f, a...))) }
func (p *eparser) peek() etok                     { return p.toks[p.p] }
func (p *eparser) next() etok                     { t := p.toks[p.p]; p.p++; return t }
func (p *eparser) isOp(s string) bool              { t := p.peek(); return t.k == "op" && t.s == s }
func (p *eparser) expectOp(s string) {
	if !p.isOp(s) {
		p.fail("expected %q, got %q", s, p.peek().s)
	}
	p.p++
}

func (p *eparser) ternary() Expr {
	if t := p.peek(); t.k == "id" && (t.s == "forall" || t.s == "exists") {
		p.next()
		q := &EQuant{Forall: t.s == "forall"}
		for {
			n := p.next()
			if n.k != "id" {
				p.fail("quantifier variable expected")
			}
			ty := p.next()
			tyS := ty.s
			if ty.k == "type" {
				tyS = ty.s
			} else if ty.k != "id" {
				p.fail("quantifier type expected")
			}
			for ty.k == "id" && p.isOp(".") {
				p.next()
				seg := p.next()
				tyS += "." + seg.s
			}
			if ty.k == "id" && p.isOp("(") {
				// arr(T)
				p.next()
				inner := p.next()
				is := inner.s
				for p.isOp(".") {
					p.next()
					is += "." + p.next().s
				}
				p.expectOp(")")
				tyS = ty.s + "(" + is + ")"
			}
			q.Vars = append(q.Vars, QVar{n.s, tyS})
			if p.isOp(",") {
				p.next()
				continue
			}
			break
		}
		p.expectOp("::")
		q.Body = p.ternary()
		return q
	}
	c := p.iff()
	if p.isOp("?") {
		p.next()
		a := p.ternary()
		p.expectOp(":")
		b := p.ternary()
		return &EIte{c, a, b}
	}
	return c
}

func (p *eparser) iff() Expr {
	x := p.implies()
	for p.isOp("<==>") {
		p.next()
		y := p.implies()
		x = &EBin{"<==>", x, y}
	}
	return x
}

func (p *eparser) implies() Expr {
	x := p.or()
	if p.isOp("==>") {
		p.next()
		var y Expr
		if t := p.peek(); t.k == "id" && (t.s == "forall" || t.s == "exists") {
			y = p.ternary()
		} else {
			y = p.implies()
		}
		return &EBin{"==>", x, y}
	}
	return x
}

func (p *eparser) or() Expr {
	x := p.and()
	for p.isOp("||") {
		p.next()
		x = &EBin{"||", x, p.and()}
	}
	return x
}

func (p *eparser) and() Expr {
	x := p.cmp()
	for p.isOp("&&") {
		p.next()
		if t := p.peek(); t.k == "id" && (t.s == "forall" || t.s == "exists") {
			x = &EBin{"&&", x, p.ternary()}
			return x
		}
		x = &EBin{"&&", x, p.cmp()}
	}
	return x
}

func (p *eparser) cmp() Expr {
	x := p.add()
	for {
		t := p.peek()
		if t.k == "op" && (t.s == "==" || t.s == "!=" || t.s == "<" || t.s == "<=" || t.s == ">" || t.s == ">=") {
			p.next()
			x = &EBin{t.s, x, p.add()}
			continue
		}
		return x
	}
}

func (p *eparser) add() Expr {
	x := p.mul()
	for {
		t := p.peek()
		if t.k == "op" && (t.s == "+" || t.s == "-" || t.s == "|" || t.s == "^") {
			p.next()
			x = &EBin{t.s, x, p.mul()}
			continue
		}
		return x
	}
}

func (p *eparser) mul() Expr {
	x := p.unary()
	for {
		t := p.peek()
		if t.k == "op" && (t.s == "*" || t.s == "/" || t.s == "%" || t.s == "<<" || t.s == ">>" || t.s == "&" || t.s == "&^") {
			p.next()
			x = &EBin{t.s, x, p.unary()}
			continue
		}
		return x
	}
}

func (p *eparser) unary() Expr {
	t := p.peek()
	if t.k == "op" {
		switch t.s {
		case "!", "-", "^":
			p.next()
			return &EUn{t.s, p.unary()}
		case "&":
			p.next()
			return &EAddr{p.unary()}
		case "*":
			p.next()
			return &EUn{"*", p.unary()}
		case "#":
			p.next()
			n := p.next()
			if n.k != "id" {
				p.fail("track name expected after #")
			}
			return p.postfix(&ECount{n.s})
		}
	}
	return p.postfix(p.primary())
}

func (p *eparser) primary() Expr {
	t := p.next()
	switch t.k {
	case "int":
		v := new(big.Int)
		s := strings.ReplaceAll(t.s, "_", "")
		if _, ok := v.SetString(s, 0); !ok {
			p.fail("bad integer %q", t.s)
		}
		return &EInt{v}
	case "str":
		return &EStr{t.s}
	case "type":
		return &EType{t.s}
	case "id":
		switch t.s {
		case "true":
			return &EBool{true}
		case "false":
			return &EBool{false}
		case "nil":
			return &ENil{}
		}
		if p.isOp("(") {
			p.next()
			var args []Expr
			if !p.isOp(")") {
				for {
					args = append(args, p.ternary())
					if p.isOp(",") {
						p.next()
						continue
					}
					break
				}
			}
			p.expectOp(")")
			return &ECall{t.s, args}
		}
		return &EIdent{t.s}
	case "op":
		if t.s == "(" {
			e := p.ternary()
			p.expectOp(")")
			return e
		}
	}
	p.fail("unexpected token %q", t.s)
	return nil
}

func (p *eparser) postfix(x Expr) Expr {
	for {
		if p.isOp(".") {
			p.next()
			n := p.next()
			if n.k != "id" && n.k != "int" {
				p.fail("selector expected")
			}
			// qualified call: pkg.f(args) -> ECall with dotted name
			if p.isOp("(") {
				if sel, ok := x.(*ESel); ok {
					// pkg.Type.method(args): flatten to a dotted name
					if id2, ok2 := sel.X.(*EIdent); ok2 {
						x = &EIdent{id2.Name + "." + sel.Name}
					}
				}
				if id, ok := x.(*EIdent); ok {
					p.next()
					var args []Expr
					if !p.isOp(")") {
						for {
							args = append(args, p.ternary())
							if p.isOp(",") {
								p.next()
								continue
							}
							break
						}
					}
					p.expectOp(")")
					x = &ECall{id.Name + "." + n.s, args}
					continue
				}
			}
			x = &ESel{x, n.s}
			continue
		}
		if p.isOp("[") {
			p.next()
			i := p.ternary()
			p.expectOp("]")
			x = &EIdx{x, i}
			continue
		}
		return x
	}
}

func exprString(e Expr) string {
	switch e := e.(type) {
	case *EIdent:
		return e.Name
	case *EInt:
		return e.Val.String()
	case *EStr:
		return fmt.Sprintf("%q", e.Val)
	case *EBool:
		return fmt.Sprint(e.Val)
	case *ENil:
		return "nil"
	case *EUn:
		return e.Op + exprString(e.X)
	case *EBin:
		return "(" + exprString(e.X) + " " + e.Op + " " + exprString(e.Y) + ")"
	case *ECall:
		var a []string
		for _, x := range e.Args {
			a = append(a, exprString(x))
		}
		return e.Fn + "(" + strings.Join(a, ", ") + ")"
	case *ESel:
		return exprString(e.X) + "." + e.Name
	case *EIdx:
		return exprString(e.X) + "[" + exprString(e.I) + "]"
	case *EQuant:
		return "quant"
	case *ECount:
		return "#" + e.Name
	case *EAddr:
		return "&" + exprString(e.X)
	case *EIte:
		return "ite"
	case *EType:
		return "type(" + e.T + ")"
	}
	return "?"
}
