package main

import (
	"fmt"
	"go/types"
	"math/big"
	"sort"
	"strings"
)

type Scope struct {
	e       *Exec
	c       *Ctx
	cur     *Heap
	old     *Heap
	names   map[string]Val
	params  map[string]Val
	results []Val
	bound   map[string]Val
	pkg     *types.Package
	tracks  map[string]*trackInfo
	where   string
	macroDepth int
}

type evalErr string

func (sc *Scope) fail(f string, a ...interface{}) {
	panic(unsupportedErr(fmt.Sprintf("contract expression (%s): %s", sc.where, fmt.Sprintf(f, a...))))
}

func (e *Exec) scope(cur, old *Heap) *Scope {
	return &Scope{e: e, c: e.c, cur: cur, old: old, params: e.params, names: e.names, pkg: pkgOf(e.fn), tracks: e.c.tracks}
}

func (e *Exec) evalBool(sc *Scope, cl Clause) string {
	sc.where = cl.Src
	v := sc.eval(cl.E)
	v = sc.rvalue(v)
	if v.S != SBool {
		sc.fail("clause is not boolean (sort %s)", v.S)
	}
	return v.T
}

// rvalue turns an auto-address of a struct lvalue into the struct value.
func (sc *Scope) rvalue(v Val) Val {
	if v.Addr {
		t := deref(v.GT)
		return Val{T: sc.c.loadStruct(sc.cur, v.T, t), S: sc.c.sortOf(t), GT: t}
	}
	if v.Loc != nil {
		return Val{T: sc.c.hsel(sc.cur, v.Loc.Comp, v.Loc.Ref), S: sc.c.sortOf(v.Loc.T), GT: v.Loc.T}
	}
	return v
}

func (sc *Scope) lookupPkg(name string) *types.Package {
	if sc.pkg != nil {
		for _, imp := range sc.pkg.Imports() {
			if imp.Name() == name || shortPath(imp.Path()) == name {
				return imp
			}
		}
		if sc.pkg.Name() == name || shortPath(sc.pkg.Path()) == name {
			return sc.pkg
		}
	}
	// zap's own packages first (log/slog/internal/buffer, fmt's unexported types ... share names)
	for _, p := range sc.c.P.Prog.AllPackages() {
		if sc.c.P.isZapPkg(p.Pkg) && (p.Pkg.Name() == name || shortPath(p.Pkg.Path()) == name) {
			return p.Pkg
		}
	}
	for _, p := range sc.c.P.Prog.AllPackages() {
		if p.Pkg.Name() == name || shortPath(p.Pkg.Path()) == name {
			return p.Pkg
		}
	}
	return nil
}

func (sc *Scope) eval(x Expr) Val {
	c := sc.c
	switch x := x.(type) {
	case *EInt:
		return Val{Lit: x.Val}
	case *EBool:
		if x.Val {
			return Val{T: "true", S: SBool, GT: types.Typ[types.Bool]}
		}
		return Val{T: "false", S: SBool, GT: types.Typ[types.Bool]}
	case *EStr:
		return Val{T: c.strLit(x.Val), S: SBytes, GT: types.Typ[types.String]}
	case *ENil:
		return Val{T: "nil", S: "Nil"}
	case *EIdent:
		return sc.evalIdent(x.Name)
	case *ECount:
		ti := sc.tracks[x.Name]
		if ti == nil {
			sc.fail("unknown track %s", x.Name)
		}
		return Val{T: c.hget(sc.cur, ti.comp("n")), S: c.intS(), GT: types.Typ[types.Int]}
	case *EType:
		t := sc.resolveType(x.T)
		return Val{T: fmt.Sprint(c.typeTag(t)), S: "Int", GT: nil, TypeLit: t}
	case *ESel:
		return sc.evalSel(x)
	case *EIdx:
		return sc.evalIdx(x)
	case *EAddr:
		v := sc.eval(x.X)
		if v.Addr {
			v.Addr = false
			return v
		}
		sc.fail("cannot take the address of %s (only struct-typed lvalues and array elements)", exprString(x.X))
	case *EUn:
		v := sc.rvalue(sc.eval(x.X))
		switch x.Op {
		case "!":
			return Val{T: not(v.T), S: SBool, GT: types.Typ[types.Bool]}
		case "-":
			if v.Lit != nil {
				return Val{Lit: new(big.Int).Neg(v.Lit)}
			}
			zero := Val{T: c.intLit(big.NewInt(0), v.GT), S: v.S, GT: v.GT}
			return Val{T: c.arith("-", zero, v, v.GT), S: v.S, GT: v.GT}
		case "*":
			t := deref(v.GT)
			if sc.e != nil {
				return sc.e.load(sc.cur, v, t)
			}
		}
		sc.fail("unary %s", x.Op)
	case *EBin:
		return sc.evalBin(x)
	case *EIte:
		cv := sc.rvalue(sc.eval(x.C))
		a, b := sc.rvalue(sc.eval(x.A)), sc.rvalue(sc.eval(x.B))
		a, b = sc.unify(a, b)
		return Val{T: fmt.Sprintf("(ite %s %s %s)", cv.T, a.T, b.T), S: a.S, GT: a.GT}
	case *EQuant:
		saved := sc.bound
		nb := map[string]Val{}
		for k, v := range saved {
			nb[k] = v
		}
		var decls, ranges []string
		for _, qv := range x.Vars {
			t, s := sc.resolveSpecType(qv.Type)
			n := q("q!" + qv.Name)
			isArr := strings.HasPrefix(strings.TrimSpace(qv.Type), "arr(")
			nb[qv.Name] = Val{T: n, S: s, GT: t, TrackArr: isArr}
			decls = append(decls, fmt.Sprintf("(%s %s)", n, s))
			if t != nil && !isArr && !c.bv {
				// a bound variable of a fixed-width Go integer type ranges over that type only
				if _, _, ok := intInfo(t); ok && qv.Type != "int" && qv.Type != "Int" {
					ranges = append(ranges, c.rangeFact(n, t, 0))
				}
			}
		}
		sc.bound = nb
		body := sc.rvalue(sc.eval(x.Body))
		sc.bound = saved
		kw := "forall"
		bt := body.T
		if !x.Forall {
			kw = "exists"
			if len(ranges) > 0 {
				bt = and(append(ranges, bt)...)
			}
		} else if len(ranges) > 0 {
			bt = fmt.Sprintf("(=> %s %s)", and(ranges...), bt)
		}
		return Val{T: fmt.Sprintf("(%s (%s) %s)", kw, strings.Join(decls, " "), bt), S: SBool, GT: types.Typ[types.Bool]}
	case *ECall:
		return sc.evalCall(x)
	}
	sc.fail("cannot evaluate %s", exprString(x))
	return Val{}
}

func (sc *Scope) evalIdent(name string) Val {
	c := sc.c
	if v, ok := sc.bound[name]; ok {
		return v
	}
	if v, ok := sc.names[name]; ok {
		return v
	}
	if v, ok := sc.params[name]; ok {
		return v
	}
	if sc.e != nil {
		if v, ok := sc.e.cells[name]; ok {
			// a local variable that lives in a heap cell (captured by a closure / address taken)
			t := deref(v.GT)
			if isStruct(t) || isArray(t) {
				return Val{T: v.T, S: SRef, GT: v.GT, Addr: true}
			}
			return Val{T: c.hsel(sc.cur, c.cellComp(t), v.T), S: c.sortOf(t), GT: t}
		}
	}
	if name == "result" {
		if len(sc.results) == 1 {
			return sc.results[0]
		}
		return Val{Tuple: sc.results, S: "Tuple"}
	}
	if g, ok := c.CS.Ghosts[name]; ok {
		comp := "G:" + name
		t, s := sc.resolveSpecType(g.Sort)
		if _, ok := c.compSort[comp]; !ok {
			c.compSort[comp] = s
		}
		return Val{T: c.hget(sc.cur, comp), S: s, GT: t, TrackArr: strings.HasPrefix(string(s), "(Array ")}
	}
	if ti := sc.tracks[name]; ti != nil {
		return Val{T: "track", Track: ti}
	}
	if sc.pkg != nil {
		if obj := sc.pkg.Scope().Lookup(name); obj != nil {
			if v, ok := sc.pkgObj(obj); ok {
				return v
			}
		}
	}
	if th, srt := c.CS.theoryOfConst(name); th != nil {
		c.needTheory(th)
		return Val{T: name, S: Sort(srt)}
	}
	if p := sc.lookupPkg(name); p != nil {
		return Val{T: "pkg", PkgRef: p}
	}
	sc.fail("unknown identifier %s", name)
	return Val{}
}

func (sc *Scope) pkgObj(obj types.Object) (Val, bool) {
	c := sc.c
	switch o := obj.(type) {
	case *types.Const:
		t := o.Type()
		if _, _, ok := intInfo(t); ok {
			v, _ := new(big.Int).SetString(o.Val().ExactString(), 10)
			if b, isb := t.(*types.Basic); isb && b.Info()&types.IsUntyped != 0 {
				return Val{Lit: v}, true
			}
			return Val{T: c.intLit(v, t), S: c.sortOf(t), GT: t, ConstVal: v}, true
		}
		if isStringT(t) {
			return Val{T: c.strLit(constantString(o)), S: SBytes, GT: t}, true
		}
		if b, ok := t.Underlying().(*types.Basic); ok && b.Info()&types.IsBoolean != 0 {
			return Val{T: o.Val().ExactString(), S: SBool, GT: t}, true
		}
	case *types.Var:
		for _, p := range c.P.Prog.AllPackages() {
			if p.Pkg == o.Pkg() {
				if g := p.Var(o.Name()); g != nil {
					if sc.e != nil {
						if cv, ok := sc.e.immutableGlobal(g); ok {
							return cv, true
						}
					}
					gv := c.globalRef(g)
					t := o.Type()
					if isStruct(t) {
						return Val{T: gv.T, S: SRef, GT: types.NewPointer(t), Addr: true}, true
					}
					return Val{T: c.hsel(sc.cur, c.cellComp(t), gv.T), S: c.sortOf(t), GT: t}, true
				}
			}
		}
	case *types.Func:
		for _, p := range c.P.Prog.AllPackages() {
			if p.Pkg == o.Pkg() {
				if f := p.Func(o.Name()); f != nil {
					return c.fnConst(f), true
				}
			}
		}
	case *types.TypeName:
		return Val{T: fmt.Sprint(c.typeTag(o.Type())), S: "Int", TypeLit: o.Type()}, true
	}
	return Val{}, false
}

func (sc *Scope) evalSel(x *ESel) Val {
	c := sc.c
	if id, ok := x.X.(*EIdent); ok && id.Name == "result" && len(x.Name) > 0 && x.Name[0] >= '0' && x.Name[0] <= '9' {
		var i int
		fmt.Sscan(x.Name, &i)
		if i >= len(sc.results) {
			sc.fail("result.%d out of range", i)
		}
		return sc.results[i]
	}
	base := sc.eval(x.X)
	if base.PkgRef != nil {
		obj := base.PkgRef.Scope().Lookup(x.Name)
		if obj == nil {
			sc.fail("%s.%s not found", base.PkgRef.Name(), x.Name)
		}
		if v, ok := sc.pkgObj(obj); ok {
			return v
		}
		sc.fail("%s.%s is not usable in a contract", base.PkgRef.Name(), x.Name)
	}
	if base.Track != nil {
		ti := base.Track
		es, et := ti.arraySort(x.Name)
		if es == "" {
			sc.fail("track %s has no array %s", ti.name, x.Name)
		}
		return Val{T: c.hget(sc.cur, ti.comp(x.Name)), S: Sort(fmt.Sprintf("(Array %s %s)", c.intS(), es)), GT: et, TrackArr: true}
	}
	if len(base.Tuple) > 0 {
		var i int
		if _, err := fmt.Sscan(x.Name, &i); err == nil && i < len(base.Tuple) {
			return base.Tuple[i]
		}
	}
	// struct field access
	var stT types.Type
	viaPtr := false
	if base.GT == nil {
		sc.fail("selector .%s on untyped value %s", x.Name, exprString(x.X))
	}
	if p, ok := base.GT.Underlying().(*types.Pointer); ok {
		stT = p.Elem()
		viaPtr = true
		if pp, ok := stT.Underlying().(*types.Pointer); ok && isStruct(pp.Elem()) && !base.Addr {
			// captured variable cell (**T): load the cell first
			base = Val{T: c.hsel(sc.cur, c.cellComp(stT), base.T), S: SRef, GT: stT}
			stT = pp.Elem()
		}
	} else {
		stT = base.GT
	}
	st, ok := stT.Underlying().(*types.Struct)
	if !ok {
		sc.fail("selector .%s on non-struct %s", x.Name, typeString(base.GT))
	}
	// find field (including promoted through embedded fields)
	idx := -1
	for i := 0; i < st.NumFields(); i++ {
		if st.Field(i).Name() == x.Name {
			idx = i
			break
		}
	}
	if idx < 0 {
		for i := 0; i < st.NumFields(); i++ {
			f := st.Field(i)
			if f.Embedded() {
				if est, ok := deref(f.Type()).Underlying().(*types.Struct); ok {
					for j := 0; j < est.NumFields(); j++ {
						if est.Field(j).Name() == x.Name {
							return sc.evalSel(&ESel{&ESel{x.X, f.Name()}, x.Name})
						}
					}
				}
			}
		}
		sc.fail("type %s has no field %s", typeString(stT), x.Name)
	}
	ft := st.Field(idx).Type()
	if viaPtr || base.Addr {
		if isStruct(ft) || isArray(ft) {
			return Val{T: c.subRef(stT, idx, base.T), S: SRef, GT: types.NewPointer(ft), Addr: true}
		}
		t := c.hsel(sc.cur, c.fieldComp(stT, idx), base.T)
		if _, isSlice := ft.Underlying().(*types.Slice); isSlice && !strings.Contains(t, "q!") && !strings.Contains(t, "sp!") && !strings.Contains(t, "dummy!") {
			// every slice value in the heap is well-formed (0 <= len <= cap, nil array => cap 0)
			c.defFact(c.rangeFact(t, ft, 0))
			// and reachable from the heap, hence allocated (in the state it is read from)
			c.defFact(c.allocFact(sc.cur, Val{T: t, S: SSlice, GT: ft}))
		}
		switch ft.Underlying().(type) {
		case *types.Pointer, *types.Map, *types.Chan:
			if !strings.Contains(t, "q!") && !strings.Contains(t, "sp!") && !strings.Contains(t, "dummy!") {
				// a pointer stored in the heap points to an allocated object (or is nil)
				c.defFact(c.allocFact(sc.cur, Val{T: t, S: SRef, GT: ft}))
			}
		}
		return Val{T: t, S: c.sortOf(ft), GT: ft}
	}
	vt := fmt.Sprintf("(%s %s)", c.selName(stT, idx), base.T)
	switch ft.Underlying().(type) {
	case *types.Pointer, *types.Map, *types.Chan:
		if !strings.Contains(vt, "q!") && !strings.Contains(vt, "sp!") && !strings.Contains(vt, "dummy!") {
			// a pointer held in a struct value points to an allocated object (or is nil)
			c.defFact(c.allocFact(sc.cur, Val{T: vt, S: SRef, GT: ft}))
		}
	}
	return Val{T: vt, S: c.sortOf(ft), GT: ft}
}

func (sc *Scope) evalIdx(x *EIdx) Val {
	c := sc.c
	base := sc.eval(x.X)
	iv := sc.rvalue(sc.eval(x.I))
	if base.TrackArr {
		ks, es := arraySorts(string(base.S))
		i := iv.T
		if ks == string(c.intS()) {
			i = sc.toIdx(iv)
		}
		return Val{T: fmt.Sprintf("(select %s %s)", base.T, i), S: Sort(es), GT: base.GT, TrackArr: strings.HasPrefix(es, "(Array ")}
	}
	if base.Addr {
		// array lvalue
		if at, ok := deref(base.GT).Underlying().(*types.Array); ok {
			i := sc.toIdx(iv)
			ref := fmt.Sprintf("(elem %s %s)", base.T, i)
			et := at.Elem()
			if isStruct(et) || isArray(et) {
				return Val{T: ref, S: SRef, GT: types.NewPointer(et), Addr: true}
			}
			return Val{T: c.hsel(sc.cur, c.elemComp(et), ref), S: c.sortOf(et), GT: et}
		}
	}
	if base.GT == nil {
		sc.fail("index on untyped value")
	}
	switch u := base.GT.Underlying().(type) {
	case *types.Slice:
		i := sc.toIdx(iv)
		ref := fmt.Sprintf("(sidx %s %s)", base.T, i)
		et := u.Elem()
		if isStruct(et) || isArray(et) {
			return Val{T: ref, S: SRef, GT: types.NewPointer(et), Addr: true}
		}
		return Val{T: c.hsel(sc.cur, c.elemComp(et), ref), S: c.sortOf(et), GT: et}
	case *types.Pointer:
		if at, ok := u.Elem().Underlying().(*types.Array); ok {
			i := sc.toIdx(iv)
			ref := fmt.Sprintf("(elem %s %s)", base.T, i)
			et := at.Elem()
			if isStruct(et) || isArray(et) {
				return Val{T: ref, S: SRef, GT: types.NewPointer(et), Addr: true}
			}
			return Val{T: c.hsel(sc.cur, c.elemComp(et), ref), S: c.sortOf(et), GT: et}
		}
	case *types.Basic:
		if isStringT(base.GT) {
			c.needBat()
			return Val{T: fmt.Sprintf("(bat %s %s)", base.T, sc.toIdx(iv)), S: c.sortOf(types.Typ[types.Uint8]), GT: types.Typ[types.Uint8]}
		}
	case *types.Map:
		k := sc.coerceTo(iv, u.Key())
		vals := c.mapValComp(base.GT)
		return Val{T: fmt.Sprintf("(select %s %s)", c.hsel(sc.cur, vals, base.T), k.T), S: c.sortOf(u.Elem()), GT: u.Elem()}
	}
	sc.fail("cannot index %s", typeString(base.GT))
	return Val{}
}

func (sc *Scope) toIdx(v Val) string {
	c := sc.c
	if v.Lit != nil {
		return c.intLitBits(v.Lit, 64)
	}
	if c.bv && v.GT != nil {
		bits, signed, ok := intInfo(v.GT)
		if ok && bits < 64 {
			if signed {
				return fmt.Sprintf("((_ sign_extend %d) %s)", 64-bits, v.T)
			}
			return fmt.Sprintf("((_ zero_extend %d) %s)", 64-bits, v.T)
		}
	}
	return v.T
}

func (sc *Scope) coerceTo(v Val, t types.Type) Val {
	if t == nil {
		return v
	}
	if v.Lit != nil {
		return Val{T: sc.c.intLit(v.Lit, t), S: sc.c.sortOf(t), GT: t}
	}
	if v.S == "Nil" {
		return Val{T: sc.c.zero(t), S: sc.c.sortOf(t), GT: t}
	}
	return v
}

// unify coerces literals / nil against the other operand.
func (sc *Scope) unify(a, b Val) (Val, Val) {
	c := sc.c
	fix := func(x, other Val) Val {
		if x.Lit != nil {
			if other.Lit != nil {
				return Val{T: c.intLitBits(x.Lit, 64), S: c.intS(), GT: types.Typ[types.Int]}
			}
			if other.GT != nil {
				if _, _, ok := intInfo(other.GT); ok {
					return Val{T: c.intLit(x.Lit, other.GT), S: other.S, GT: other.GT}
				}
			}
			if c.bv && strings.HasPrefix(string(other.S), "(_ BitVec") {
				var w int
				fmt.Sscanf(string(other.S), "(_ BitVec %d)", &w)
				return Val{T: c.intLitBits(x.Lit, w), S: other.S, GT: other.GT}
			}
			return Val{T: c.intLitBits(x.Lit, 64), S: c.intS(), GT: types.Typ[types.Int]}
		}
		if x.S == "Nil" {
			switch other.S {
			case SRef:
				return Val{T: "nil", S: SRef, GT: other.GT}
			case SIface:
				return Val{T: "(mk_Iface 0 nilbox)", S: SIface, GT: other.GT}
			case SFn:
				return Val{T: "nilfn", S: SFn, GT: other.GT}
			case SSlice:
				return Val{T: c.zero(other.GT), S: SSlice, GT: other.GT}
			}
		}
		return x
	}
	a2 := fix(a, b)
	b2 := fix(b, a2)
	return a2, b2
}

func (sc *Scope) evalBin(x *EBin) Val {
	c := sc.c
	boolT := types.Typ[types.Bool]
	switch x.Op {
	case "==>":
		a, b := sc.rvalue(sc.eval(x.X)), sc.rvalue(sc.eval(x.Y))
		return Val{T: fmt.Sprintf("(=> %s %s)", a.T, b.T), S: SBool, GT: boolT}
	case "<==>":
		a, b := sc.rvalue(sc.eval(x.X)), sc.rvalue(sc.eval(x.Y))
		return Val{T: fmt.Sprintf("(= %s %s)", a.T, b.T), S: SBool, GT: boolT}
	case "&&":
		a, b := sc.rvalue(sc.eval(x.X)), sc.rvalue(sc.eval(x.Y))
		return Val{T: and(a.T, b.T), S: SBool, GT: boolT}
	case "||":
		a, b := sc.rvalue(sc.eval(x.X)), sc.rvalue(sc.eval(x.Y))
		return Val{T: or(a.T, b.T), S: SBool, GT: boolT}
	}
	a, b := sc.rvalue(sc.eval(x.X)), sc.rvalue(sc.eval(x.Y))
	if x.Op == "==" || x.Op == "!=" {
		// interface nil test is a tag test (payload irrelevant)
		if a.S == SIface && b.S == "Nil" || b.S == SIface && a.S == "Nil" {
			v := a
			if a.S == "Nil" {
				v = b
			}
			t := fmt.Sprintf("(= (if_tag %s) 0)", v.T)
			if x.Op == "!=" {
				t = not(t)
			}
			return Val{T: t, S: SBool, GT: boolT}
		}
		if a.S == SSlice && b.S == "Nil" || b.S == SSlice && a.S == "Nil" {
			v := a
			if a.S == "Nil" {
				v = b
			}
			t := fmt.Sprintf("(= (sl_arr %s) nil)", v.T)
			if x.Op == "!=" {
				t = not(t)
			}
			return Val{T: t, S: SBool, GT: boolT}
		}
	}
	if a.ConstVal != nil && b.ConstVal != nil && a.GT != nil && (x.Op == "|" || x.Op == "&" || x.Op == "^") {
		r := new(big.Int)
		switch x.Op {
		case "|":
			r.Or(a.ConstVal, b.ConstVal)
		case "&":
			r.And(a.ConstVal, b.ConstVal)
		case "^":
			r.Xor(a.ConstVal, b.ConstVal)
		}
		return Val{T: c.intLit(r, a.GT), S: a.S, GT: a.GT, ConstVal: r}
	}
	if x.Op == "<<" || x.Op == ">>" {
		if a.Lit != nil && b.Lit != nil {
			if x.Op == "<<" {
				return Val{Lit: new(big.Int).Lsh(a.Lit, uint(b.Lit.Int64()))}
			}
			return Val{Lit: new(big.Int).Rsh(a.Lit, uint(b.Lit.Int64()))}
		}
	} else {
		if a.Lit != nil && b.Lit != nil {
			r := new(big.Int)
			switch x.Op {
			case "+":
				return Val{Lit: r.Add(a.Lit, b.Lit)}
			case "-":
				return Val{Lit: r.Sub(a.Lit, b.Lit)}
			case "*":
				return Val{Lit: r.Mul(a.Lit, b.Lit)}
			case "|":
				return Val{Lit: r.Or(a.Lit, b.Lit)}
			case "&":
				return Val{Lit: r.And(a.Lit, b.Lit)}
			case "^":
				return Val{Lit: r.Xor(a.Lit, b.Lit)}
			}
		}
		a, b = sc.unify(a, b)
	}
	if a.S != b.S && x.Op != "<<" && x.Op != ">>" {
		sc.fail("operands of %s have different sorts: %s (%s) vs %s (%s)", x.Op, exprString(x.X), a.S, exprString(x.Y), b.S)
	}
	opT := a.GT
	if opT == nil {
		opT = b.GT
	}
	if opT == nil {
		// spec-only sorts: only equality
		if x.Op == "==" {
			return Val{T: fmt.Sprintf("(= %s %s)", a.T, b.T), S: SBool, GT: boolT}
		}
		if x.Op == "!=" {
			return Val{T: fmt.Sprintf("(not (= %s %s))", a.T, b.T), S: SBool, GT: boolT}
		}
		if a.S == "Int" {
			opT = types.Typ[types.Int]
		} else {
			sc.fail("operator %s on untyped sort %s", x.Op, a.S)
		}
	}
	resT := opT
	switch x.Op {
	case "==", "!=", "<", "<=", ">", ">=":
		resT = boolT
	}
	// spec arithmetic on mathematical ints in int mode: no wrap-around for untyped Int results
	if !c.bv && a.GT == nil && b.GT == nil {
		switch x.Op {
		case "+", "-", "*":
			return Val{T: fmt.Sprintf("(%s %s %s)", x.Op, a.T, b.T), S: "Int"}
		}
	}
	if !c.bv && sc.mathInts() {
		if _, _, ok := intInfo(opT); ok {
			switch x.Op {
			case "+", "-", "*":
				return Val{T: fmt.Sprintf("(%s %s %s)", x.Op, a.T, b.T), S: "Int", GT: opT}
			}
		}
	}
	r, _ := c.binopVal(x.Op, a, b, opT, resT)
	if r.T == "" {
		sc.fail("operator %s unsupported on %s", x.Op, typeString(opT))
	}
	return r
}

// mathInts: in int mode, contract arithmetic is mathematical (no wrap-around);
// code arithmetic wraps. This is the usual spec-integer convention.
func (sc *Scope) mathInts() bool { return true }

func constantString(o *types.Const) string {
	s := o.Val().ExactString()
	var us string
	if _, err := fmt.Sscanf(s, "%q", &us); err == nil {
		return us
	}
	return strings.Trim(s, "\"")
}

// resolveSpecType maps a type name used in spec funcs / quantifiers to (Go type, sort).
func (sc *Scope) resolveSpecType(name string) (types.Type, Sort) {
	c := sc.c
	name = strings.TrimSpace(name)
	if strings.HasPrefix(name, "type(") && strings.HasSuffix(name, ")") {
		name = name[5 : len(name)-1]
	}
	if strings.HasPrefix(name, "arr(") && strings.HasSuffix(name, ")") {
		et, es := sc.resolveSpecType(name[4 : len(name)-1])
		return et, Sort(fmt.Sprintf("(Array %s %s)", c.intS(), es))
	}
	if strings.HasPrefix(name, "map(") && strings.HasSuffix(name, ")") {
		parts := splitTop(name[4 : len(name)-1])
		if len(parts) == 2 {
			_, ks := sc.resolveSpecType(parts[0])
			vt, vs := sc.resolveSpecType(parts[1])
			return vt, Sort(fmt.Sprintf("(Array %s %s)", ks, vs))
		}
	}
	switch name {
	case "int":
		return types.Typ[types.Int], c.sortOf(types.Typ[types.Int])
	case "Int":
		return nil, "Int"
	case "bool":
		return types.Typ[types.Bool], SBool
	case "Bytes", "string":
		return types.Typ[types.String], SBytes
	case "Ref":
		return nil, SRef
	case "Slice":
		return nil, SSlice
	case "Iface":
		return nil, SIface
	case "Fn":
		return nil, SFn
	case "byte":
		return types.Typ[types.Uint8], c.sortOf(types.Typ[types.Uint8])
	}
	for _, b := range types.Typ {
		if b.Name() == name {
			return b, c.sortOf(b)
		}
	}
	if th := c.CS.theoryOfSort(name); th != nil {
		c.needTheory(th)
		return nil, Sort(name)
	}
	t := sc.resolveType(name)
	return t, c.sortOf(t)
}

// resolveType parses a Go type expression written in a contract.
func (sc *Scope) resolveType(text string) types.Type {
	text = strings.TrimSpace(text)
	if strings.HasPrefix(text, "*") {
		return types.NewPointer(sc.resolveType(text[1:]))
	}
	if strings.HasPrefix(text, "[]") {
		return types.NewSlice(sc.resolveType(text[2:]))
	}
	for _, b := range types.Typ {
		if b.Name() == text {
			return b
		}
	}
	if text == "error" {
		return types.Universe.Lookup("error").Type()
	}
	if text == "byte" {
		return types.Typ[types.Uint8]
	}
	if strings.HasPrefix(text, "map[") {
		d := 0
		for i := 3; i < len(text); i++ {
			if text[i] == '[' {
				d++
			} else if text[i] == ']' {
				d--
				if d == 0 {
					return types.NewMap(sc.resolveType(text[4:i]), sc.resolveType(text[i+1:]))
				}
			}
		}
	}
	if text == "any" {
		return types.Universe.Lookup("any").Type()
	}
	if text == "interface{}" {
		// printed as written (type tags are keyed by the printed form, and go/types prints the universe type as "any")
		it := types.NewInterfaceType(nil, nil)
		it.Complete()
		return it
	}
	if strings.HasSuffix(text, "]") {
		// generic instance pkg.Name[T1,T2]: bracket matching the final one
		d := 0
		open := -1
		for i := len(text) - 1; i >= 0; i-- {
			if text[i] == ']' {
				d++
			} else if text[i] == '[' {
				d--
				if d == 0 {
					open = i
					break
				}
			}
		}
		if open > 0 {
			gen, ok := sc.resolveType(text[:open]).(*types.Named)
			if !ok || gen.TypeParams().Len() == 0 {
				sc.fail("%q: not a generic type", text[:open])
			}
			var targs []types.Type
			d = 0
			start := open + 1
			for i := open + 1; i < len(text); i++ {
				switch text[i] {
				case '[', '(', '{':
					d++
				case ']', ')', '}':
					if d == 0 {
						targs = append(targs, sc.resolveType(text[start:i]))
					}
					d--
				case ',':
					if d == 0 {
						targs = append(targs, sc.resolveType(text[start:i]))
						start = i + 1
					}
				}
			}
			inst, err := types.Instantiate(nil, gen, targs, false)
			if err != nil {
				sc.fail("instantiate %q: %v", text, err)
			}
			return inst
		}
	}
	i := strings.LastIndex(text, ".")
	var pkg *types.Package
	name := text
	if i >= 0 {
		pkg = sc.lookupPkg(text[:i])
		name = text[i+1:]
		if pkg == nil {
			// try full path
			for _, p := range sc.c.P.Prog.AllPackages() {
				if p.Pkg.Path() == text[:i] || shortPath(p.Pkg.Path()) == text[:i] {
					pkg = p.Pkg
				}
			}
		}
	} else {
		pkg = sc.pkg
	}
	if pkg == nil {
		sc.fail("cannot resolve package of type %q", text)
	}
	obj := pkg.Scope().Lookup(name)
	if obj == nil {
		sc.fail("type %q not found", text)
	}
	tn, ok := obj.(*types.TypeName)
	if !ok {
		sc.fail("%q is not a type", text)
	}
	return tn.Type()
}

// evalCall: built-in spec functions, declared spec functions, pure Go functions.
func (sc *Scope) evalCall(x *ECall) Val {
	c := sc.c
	boolT := types.Typ[types.Bool]
	intT := types.Typ[types.Int]
	arg := func(i int) Val { return sc.rvalue(sc.eval(x.Args[i])) }
	need := func(n int) {
		if len(x.Args) != n {
			sc.fail("%s expects %d arguments", x.Fn, n)
		}
	}
	switch x.Fn {
	case "old":
		need(1)
		saved := sc.cur
		sc.cur = sc.old
		v := sc.rvalue(sc.eval(x.Args[0]))
		sc.cur = saved
		return v
	case "len":
		need(1)
		v := arg(0)
		switch {
		case v.S == SSlice:
			return Val{T: fmt.Sprintf("(sl_len %s)", v.T), S: c.intS(), GT: intT}
		case v.S == SBytes:
			return Val{T: fmt.Sprintf("(blen %s)", v.T), S: c.intS(), GT: intT}
		}
		sc.fail("len of %s", v.S)
	case "cap":
		need(1)
		v := arg(0)
		return Val{T: fmt.Sprintf("(sl_cap %s)", v.T), S: c.intS(), GT: intT}
	case "arr":
		need(1)
		v := arg(0)
		return Val{T: fmt.Sprintf("(sl_arr %s)", v.T), S: SRef}
	case "clk":
		// clk(): the ghost call clock (time stamp the next tracked call will get)
		need(0)
		return Val{T: c.hget(sc.cur, "$clk"), S: c.intS(), GT: intT}
	case "param":
		// param(x): the entry value of parameter x (when a loop variable shadows its name)
		need(1)
		id, ok := x.Args[0].(*EIdent)
		if !ok {
			sc.fail("param(name)")
		}
		v, ok := sc.params[id.Name]
		if !ok {
			sc.fail("no parameter %s", id.Name)
		}
		return v
	case "root":
		need(1)
		v := arg(0)
		return Val{T: fmt.Sprintf("(root %s)", v.T), S: SRef}
	case "off":
		need(1)
		v := arg(0)
		return Val{T: fmt.Sprintf("(sl_off %s)", v.T), S: c.intS(), GT: intT}
	case "fresh":
		need(1)
		v := arg(0)
		r := v.T
		if v.S == SSlice {
			r = fmt.Sprintf("(sl_arr %s)", v.T)
		}
		return Val{T: fmt.Sprintf("(and (not (= %s nil)) (not (select %s (root %s))) (select %s (root %s)))", r, c.hget(sc.old, "$alloc"), r, c.hget(sc.cur, "$alloc"), r), S: SBool, GT: boolT}
	case "was_allocated":
		// was_allocated(x): the object x (a current value) was already allocated in the old state
		need(1)
		v := arg(0)
		return Val{T: fmt.Sprintf("(select %s (root %s))", c.hget(sc.old, "$alloc"), v.T), S: SBool, GT: boolT}
	case "allocated":
		need(1)
		v := arg(0)
		return Val{T: fmt.Sprintf("(select %s (root %s))", c.hget(sc.cur, "$alloc"), v.T), S: SBool, GT: boolT}
	case "typeof":
		need(1)
		v := arg(0)
		if v.S != SIface {
			sc.fail("typeof needs an interface value")
		}
		if strings.HasPrefix(v.T, "(mk_Iface ") {
			if f := strings.Fields(v.T[len("(mk_Iface "):]); len(f) > 0 {
				if _, err := fmt.Sscan(f[0], new(int)); err == nil {
					return Val{T: f[0], S: "Int"}
				}
			}
		}
		return Val{T: fmt.Sprintf("(if_tag %s)", v.T), S: "Int"}
	case "funcval":
		// funcval(pkg.F): the function constant of a static function
		need(1)
		id := exprString(x.Args[0])
		f := c.P.Funcs[id]
		if f == nil {
			sc.fail("funcval(%s): no such function", id)
		}
		return c.fnConst(f)
	case "implements":
		need(2)
		v := arg(0)
		tv := sc.eval(x.Args[1])
		if tv.TypeLit == nil {
			sc.fail("implements(x, type(I))")
		}
		return Val{T: fmt.Sprintf("(%s (if_tag %s))", c.implementsPred(tv.TypeLit), v.T), S: SBool, GT: boolT}
	case "as":
		// as(x, type(T)): payload of interface value x viewed as T
		need(2)
		v := arg(0)
		tv := sc.eval(x.Args[1])
		if tv.TypeLit == nil {
			sc.fail("as(x, type(T))")
		}
		s := c.sortOf(tv.TypeLit)
		u := c.unbox(fmt.Sprintf("(if_val %s)", v.T), s)
		if _, isPtr := tv.TypeLit.Underlying().(*types.Pointer); isPtr && !strings.Contains(u, "q!") && !strings.Contains(u, "sp!") && !strings.Contains(u, "dummy!") {
			// a pointer held in an interface value points to an allocated object (or is nil)
			c.defFact(fmt.Sprintf("(=> (= (if_tag %s) %d) (or (= %s nil) (select %s (root %s))))", v.T, c.typeTag(tv.TypeLit), u, c.hget(sc.cur, "$alloc"), u))
		}
		return Val{T: u, S: s, GT: tv.TypeLit}
	case "iface":
		// iface(type(T), v): interface value holding v of dynamic type T
		need(2)
		tv := sc.eval(x.Args[0])
		if tv.TypeLit == nil {
			sc.fail("iface(type(T), v)")
		}
		v := sc.coerceTo(arg(1), tv.TypeLit)
		return Val{T: fmt.Sprintf("(mk_Iface %d %s)", c.typeTag(tv.TypeLit), c.box(v)), S: SIface}
	case "seq":
		need(1)
		v := arg(0)
		if v.S == SBytes {
			return v
		}
		return Val{T: c.seqOf(sc.cur, v.T), S: SBytes, GT: types.Typ[types.String]}
	case "cat":
		c.needBytesTheory()
		r := arg(0)
		for i := 1; i < len(x.Args); i++ {
			r = Val{T: fmt.Sprintf("(bcat %s %s)", r.T, arg(i).T), S: SBytes, GT: types.Typ[types.String]}
		}
		return r
	case "sub":
		need(3)
		c.needBytesTheory()
		return Val{T: fmt.Sprintf("(bsub %s %s %s)", arg(0).T, sc.toIdx(arg(1)), sc.toIdx(arg(2))), S: SBytes, GT: types.Typ[types.String]}
	case "unit":
		need(1)
		c.needBytesTheory()
		v := sc.coerceTo(arg(0), types.Typ[types.Uint8])
		return Val{T: fmt.Sprintf("(bunit %s)", v.T), S: SBytes, GT: types.Typ[types.String]}
	case "at":
		need(2)
		c.needBat()
		return Val{T: fmt.Sprintf("(bat %s %s)", arg(0).T, sc.toIdx(arg(1))), S: c.sortOf(types.Typ[types.Uint8]), GT: types.Typ[types.Uint8]}
	case "held":
		need(1)
		v := sc.eval(x.Args[0])
		c.compSort["$held"] = "(Array Ref Bool)"
		return Val{T: c.hsel(sc.cur, "$held", v.T), S: SBool, GT: boolT}
	case "unpublished":
		// unpublished(x): x was allocated on this call chain and has not been shared yet
		need(1)
		v := arg(0)
		c.compSort["$unpub"] = "(Array Ref Bool)"
		return Val{T: c.hsel(sc.cur, "$unpub", v.T), S: SBool, GT: boolT}
	case "panicking":
		// panicking(): a panic is in flight (only meaningful in deferred functions)
		need(0)
		c.compSort["$panic"] = SBool
		return Val{T: c.hget(sc.cur, "$panic"), S: SBool, GT: boolT}
	case "once":
		// once(&x.Once): the sync.Once has completed (its function ran to completion)
		need(1)
		v := sc.eval(x.Args[0])
		c.compSort["$once"] = "(Array Ref Bool)"
		return Val{T: c.hsel(sc.cur, "$once", v.T), S: SBool, GT: boolT}
	case "slice":
		need(3)
		v := arg(0)
		lo, hi := sc.toIdx(arg(1)), sc.toIdx(arg(2))
		return Val{T: fmt.Sprintf("(mk_Slice (sl_arr %s) %s %s %s)", v.T, c.add(fmt.Sprintf("(sl_off %s)", v.T), lo), c.sub(hi, lo), c.sub(fmt.Sprintf("(sl_cap %s)", v.T), lo)), S: SSlice, GT: v.GT}
	case "elems_frame":
		// elems_frame(type(T), s1, s2, ...): in the element component of []T, every cell outside the
		// allocations of the backing arrays of s1, s2, ... is unchanged between old and current state
		if len(x.Args) < 2 {
			sc.fail("elems_frame(type(T), s, ...)")
		}
		tv := sc.eval(x.Args[0])
		if tv.TypeLit == nil {
			sc.fail("elems_frame(type(T), s)")
		}
		comp := c.elemComp(tv.TypeLit)
		var excl []string
		for i := 1; i < len(x.Args); i++ {
			v := arg(i)
			excl = append(excl, fmt.Sprintf("(not (= (root r!e) (root (sl_arr %s))))", v.T))
		}
		return Val{T: fmt.Sprintf("(forall ((r!e Ref)) (! (=> %s (= (select %s r!e) (select %s r!e))) :pattern ((select %s r!e))))", and(append([]string{fmt.Sprintf("(select %s (root r!e))", c.hget(sc.old, "$alloc"))}, excl...)...), c.hget(sc.cur, comp), c.hget(sc.old, comp), c.hget(sc.cur, comp)), S: SBool, GT: boolT}
	case "cells_frame":
		// cells_frame(type(T)): every cell of type T (target of a *T that is not a field or element) allocated in the old state is unchanged
		need(1)
		{
			tv := sc.eval(x.Args[0])
			if tv.TypeLit == nil {
				sc.fail("cells_frame(type(T))")
			}
			comp := c.cellComp(tv.TypeLit)
			if !strings.HasPrefix(string(c.compSortOf(comp)), "(Array Ref ") {
				return Val{T: "true", S: SBool, GT: boolT}
			}
			return Val{T: fmt.Sprintf("(forall ((r!c Ref)) (! (=> (select %s (root r!c)) (= (select %s r!c) (select %s r!c))) :pattern ((select %s r!c))))", c.hget(sc.old, "$alloc"), c.hget(sc.cur, comp), c.hget(sc.old, comp), c.hget(sc.cur, comp)), S: SBool, GT: boolT}
		}
	case "only_changed":
		// only_changed(T.f, x): field component T.f is unchanged at every object allocated in
		// the old state, except possibly x (several exceptions may be given)
		if len(x.Args) < 2 {
			sc.fail("only_changed(T.f, x, ...)")
		}
		sel, ok := x.Args[0].(*ESel)
		if !ok {
			sc.fail("only_changed(T.f, x)")
		}
		tv := sc.eval(sel.X)
		if tv.TypeLit == nil {
			sc.fail("only_changed(T.f, x): T must be a type")
		}
		st, ok := tv.TypeLit.Underlying().(*types.Struct)
		if !ok {
			sc.fail("only_changed: not a struct type")
		}
		idx := -1
		for i := 0; i < st.NumFields(); i++ {
			if st.Field(i).Name() == sel.Name {
				idx = i
			}
		}
		if idx < 0 {
			sc.fail("only_changed: no field %s", sel.Name)
		}
		comp := c.fieldComp(tv.TypeLit, idx)
		conds := []string{fmt.Sprintf("(select %s (root r!o))", c.hget(sc.old, "$alloc"))}
		for i := 1; i < len(x.Args); i++ {
			xv := arg(i)
			if xv.S == "Nil" {
				xv = Val{T: "nil", S: SRef}
			}
			conds = append(conds, fmt.Sprintf("(not (= r!o %s))", xv.T))
		}
		return Val{T: fmt.Sprintf("(forall ((r!o Ref)) (! (=> %s (= (select %s r!o) (select %s r!o))) :pattern ((select %s r!o))))", and(conds...), c.hget(sc.cur, comp), c.hget(sc.old, comp), c.hget(sc.cur, comp)), S: SBool, GT: boolT}
	case "has":
		// has(m, k): key k is present in map m
		need(2)
		m := arg(0)
		mt, ok := m.GT.Underlying().(*types.Map)
		if !ok {
			sc.fail("has(m, k): m is not a map")
		}
		k := sc.coerceTo(arg(1), mt.Key())
		return Val{T: fmt.Sprintf("(and (not (= %s nil)) (select %s %s))", m.T, c.hsel(sc.cur, c.mapDomComp(m.GT), m.T), k.T), S: SBool, GT: boolT}
	case "mapdom":
		need(1)
		m := arg(0)
		if _, ok := m.GT.Underlying().(*types.Map); !ok {
			sc.fail("mapdom(m): m is not a map")
		}
		dom := c.mapDomComp(m.GT)
		_, es := arraySorts(string(c.compSortOf(dom)))
		return Val{T: c.hsel(sc.cur, dom, m.T), S: Sort(es)}
	case "mapvals":
		need(1)
		m := arg(0)
		if _, ok := m.GT.Underlying().(*types.Map); !ok {
			sc.fail("mapvals(m): m is not a map")
		}
		vals := c.mapValComp(m.GT)
		_, es := arraySorts(string(c.compSortOf(vals)))
		return Val{T: c.hsel(sc.cur, vals, m.T), S: Sort(es)}
	case "type_frame":
		// type_frame(type(T)): no object of struct type T that was allocated in the old state
		// has changed (any of its fields, nested structs included)
		need(1)
		tv := sc.eval(x.Args[0])
		if tv.TypeLit == nil {
			sc.fail("type_frame(type(T))")
		}
		comps := map[string]bool{}
		sc.e.typeComps(tv.TypeLit, comps)
		var names []string
		for n := range comps {
			names = append(names, n)
		}
		sort.Strings(names)
		var cs []string
		for _, comp := range names {
			if !strings.HasPrefix(string(c.compSortOf(comp)), "(Array Ref ") {
				continue
			}
			cs = append(cs, fmt.Sprintf("(forall ((r!t Ref)) (! (=> (select %s (root r!t)) (= (select %s r!t) (select %s r!t))) :pattern ((select %s r!t))))", c.hget(sc.old, "$alloc"), c.hget(sc.cur, comp), c.hget(sc.old, comp), c.hget(sc.cur, comp)))
		}
		return Val{T: and(cs...), S: SBool, GT: boolT}
	case "zero":
		need(1)
		tv := sc.eval(x.Args[0])
		if tv.TypeLit == nil {
			sc.fail("zero(type(T))")
		}
		return Val{T: c.zero(tv.TypeLit), S: c.sortOf(tv.TypeLit), GT: tv.TypeLit}
	case "closed":
		need(1)
		v := arg(0)
		c.compSort["$closed"] = "(Array Ref Bool)"
		return Val{T: c.hsel(sc.cur, "$closed", v.T), S: SBool, GT: boolT}
	case "store":
		need(3)
		a := sc.eval(x.Args[0])
		if !a.TrackArr {
			sc.fail("store(a, i, v) needs an array")
		}
		v := arg(2)
		if a.GT != nil {
			v = sc.coerceTo(v, a.GT)
		}
		return Val{T: fmt.Sprintf("(store %s %s %s)", a.T, sc.toIdx(arg(1)), v.T), S: a.S, GT: a.GT, TrackArr: true}
	case "int":
		// int(x): the mathematical value of a machine integer (identity in int mode)
		need(1)
		v := arg(0)
		if c.bv {
			sc.fail("int() conversion is not available in bv mode")
		}
		return Val{T: v.T, S: "Int"}
	}
	// conversions T(x) for basic integer types
	for _, b := range types.Typ {
		if b.Name() == x.Fn {
			if _, _, ok := intInfo(b); ok {
				need(1)
				v := arg(0)
				if v.Lit != nil {
					return Val{T: c.intLit(v.Lit, b), S: c.sortOf(b), GT: b}
				}
				fb, fs, fok := intInfo(v.GT)
				if !fok {
					sc.fail("conversion %s(...) of non-integer", x.Fn)
				}
				tb, ts, _ := intInfo(b)
				return Val{T: c.convInt(v.T, fb, fs, tb, ts, b), S: c.sortOf(b), GT: b}
			}
		}
	}
	if sf, ok := c.CS.Specs[x.Fn]; ok {
		if sf.Macro {
			return sc.applyMacro(sf, x)
		}
		return sc.applySpec(sf, x)
	}
	if th, tf := c.CS.theoryOfFun(x.Fn); th != nil {
		c.needTheory(th)
		if len(x.Args) != len(tf.Params) {
			sc.fail("theory function %s expects %d arguments", tf.Name, len(tf.Params))
		}
		var ts []string
		for i, pn := range tf.Params {
			pt, ps := sc.resolveSpecType(pn)
			a := arg(i)
			if pt != nil {
				a = sc.coerceTo(a, pt)
			} else if a.Lit != nil {
				a = Val{T: bigS(a.Lit), S: "Int"}
			}
			if a.S != ps {
				sc.fail("theory function %s argument %d: sort %s, expected %s", tf.Name, i+1, a.S, ps)
			}
			ts = append(ts, a.T)
		}
		rt, rs := sc.resolveSpecType(tf.Ret)
		if len(ts) == 0 {
			return Val{T: tf.Name, S: rs, GT: rt}
		}
		return Val{T: fmt.Sprintf("(%s %s)", tf.Name, strings.Join(ts, " ")), S: rs, GT: rt}
	}
	// pure Go function under contract
	for _, id := range sc.candidateIDs(x.Fn) {
		if con, ok := c.CS.ByID["func "+id]; ok && con.Flags["pure"] {
			var args []Val
			fn := c.P.Funcs[id]
			for i := range x.Args {
				a := arg(i)
				if fn != nil && i < len(fn.Params) {
					a = sc.coerceTo(a, fn.Params[i].Type())
				}
				args = append(args, a)
			}
			if fn == nil {
				sc.fail("pure function %s not found in program", id)
			}
			rt := fn.Signature.Results().At(0).Type()
			ret := Val{S: c.sortOf(rt), GT: rt}
			ret.T = c.pureApp(con.ID, args, ret)
			return ret
		}
	}
	sc.fail("unknown function %s in contract", x.Fn)
	return Val{}
}

func (sc *Scope) candidateIDs(name string) []string {
	ids := []string{name}
	// pkg.f / pkg.T.m with pkg a package NAME (import paths with slashes cannot be written in an expression)
	if parts := strings.Split(name, "."); len(parts) >= 2 {
		if p := sc.lookupPkg(parts[0]); p != nil {
			pp := shortPath(p.Path())
			if len(parts) == 2 {
				ids = append(ids, pp+"."+parts[1])
			} else if len(parts) == 3 {
				ids = append(ids, fmt.Sprintf("(%s.%s).%s", pp, parts[1], parts[2]), fmt.Sprintf("(*%s.%s).%s", pp, parts[1], parts[2]))
			}
		}
	}
	if sc.pkg != nil && !strings.Contains(name, ".") {
		ids = append(ids, shortPath(sc.pkg.Path())+"."+name)
	}
	if i := strings.Index(name, "."); i >= 0 && sc.pkg != nil {
		t, m := name[:i], name[i+1:]
		pp := shortPath(sc.pkg.Path())
		ids = append(ids, fmt.Sprintf("(*%s.%s).%s", pp, t, m), fmt.Sprintf("(%s.%s).%s", pp, t, m))
	}
	return ids
}

func (sc *Scope) applySpec(sf *SpecFunc, x *ECall) Val {
	c := sc.c
	if len(x.Args) != len(sf.Params) {
		sc.fail("spec func %s expects %d arguments", sf.Name, len(sf.Params))
	}
	rt, rs := sc.resolveSpecType(sf.Ret)
	var args []Val
	var sorts []string
	for i, p := range sf.Params {
		pt, ps := sc.resolveSpecType(p.Type)
		a := sc.rvalue(sc.eval(x.Args[i]))
		if pt != nil {
			a = sc.coerceTo(a, pt)
		} else if a.Lit != nil {
			a = Val{T: bigS(a.Lit), S: "Int"}
		}
		if a.S != ps {
			sc.fail("spec func %s argument %d: sort %s, expected %s", sf.Name, i+1, a.S, ps)
		}
		args = append(args, a)
		sorts = append(sorts, string(ps))
	}
	fn := q("spec:" + sf.Name)
	if !c.specDone[sf.Name] {
		c.specDone[sf.Name] = true
		if sf.Body == nil {
			c.decls = append(c.decls, fmt.Sprintf("(declare-fun %s (%s) %s)", fn, strings.Join(sorts, " "), rs))
		} else {
			// define-fun with the body evaluated over fresh parameter symbols (heap-independent)
			bsc := &Scope{e: sc.e, c: c, cur: sc.cur, old: sc.old, params: map[string]Val{}, names: map[string]Val{}, pkg: sc.pkg, tracks: map[string]*trackInfo{}, where: "spec " + sf.Name}
			var ps []string
			for _, p := range sf.Params {
				pt, s := sc.resolveSpecType(p.Type)
				n := q("sp!" + p.Name)
				bsc.params[p.Name] = Val{T: n, S: s, GT: pt, TrackArr: strings.HasPrefix(strings.TrimSpace(p.Type), "arr(")}
				ps = append(ps, fmt.Sprintf("(%s %s)", n, s))
			}
			body := bsc.rvalue(bsc.eval(sf.Body.E))
			body = bsc.coerceTo(body, rt)
			c.decls = append(c.decls, fmt.Sprintf("(define-fun %s (%s) %s %s)", fn, strings.Join(ps, " "), rs, body.T))
		}
		c.addAxiomsFor(sf.Name, sc)
	}
	var ts []string
	for _, a := range args {
		ts = append(ts, a.T)
	}
	if len(ts) == 0 {
		return Val{T: fn, S: rs, GT: rt}
	}
	return Val{T: fmt.Sprintf("(%s %s)", fn, strings.Join(ts, " ")), S: rs, GT: rt}
}

// addAxiomsFor asserts every declared axiom that mentions the spec function.
func (c *Ctx) addAxiomsFor(name string, sc *Scope) {
	for _, ax := range c.CS.Axioms {
		if c.axiomDone[ax.Name] {
			continue
		}
		if !exprMentions(ax.C.E, name) {
			continue
		}
		c.axiomDone[ax.Name] = true
		asc := &Scope{e: sc.e, c: c, cur: sc.cur, old: sc.old, params: map[string]Val{}, names: map[string]Val{}, pkg: sc.pkg, tracks: map[string]*trackInfo{}, where: "axiom " + ax.Name}
		v := asc.rvalue(asc.eval(ax.C.E))
		c.decls = append(c.decls, fmt.Sprintf("(assert %s)", v.T))
		c.axiomsUsed[ax.Name] = true
	}
}

func exprMentions(e Expr, name string) bool {
	switch e := e.(type) {
	case *ECall:
		if e.Fn == name {
			return true
		}
		for _, a := range e.Args {
			if exprMentions(a, name) {
				return true
			}
		}
	case *EUn:
		return exprMentions(e.X, name)
	case *EBin:
		return exprMentions(e.X, name) || exprMentions(e.Y, name)
	case *ESel:
		return exprMentions(e.X, name)
	case *EIdx:
		return exprMentions(e.X, name) || exprMentions(e.I, name)
	case *EQuant:
		return exprMentions(e.Body, name)
	case *EIte:
		return exprMentions(e.C, name) || exprMentions(e.A, name) || exprMentions(e.B, name)
	case *EAddr:
		return exprMentions(e.X, name)
	}
	return false
}

// arraySorts splits "(Array K V)" into K and V.
func arraySorts(s string) (string, string) {
	s = strings.TrimSpace(s)
	if !strings.HasPrefix(s, "(Array ") {
		return "", ""
	}
	body := s[7 : len(s)-1]
	depth := 0
	for i, r := range body {
		switch r {
		case '(':
			depth++
		case ')':
			depth--
		case ' ':
			if depth == 0 {
				return body[:i], strings.TrimSpace(body[i+1:])
			}
		}
	}
	return "", ""
}

// applyMacro expands a macro at the use site: parameters are bound to the argument values and
// the body is evaluated in the current scope (so it may read the heap, and old() inside it
// means the old state of the use site).
func (sc *Scope) applyMacro(sf *SpecFunc, x *ECall) Val {
	if len(x.Args) != len(sf.Params) {
		sc.fail("macro %s expects %d arguments", sf.Name, len(sf.Params))
	}
	nb := map[string]Val{}
	for k, v := range sc.bound {
		nb[k] = v
	}
	for i, p := range sf.Params {
		pt, ps := sc.resolveSpecType(p.Type)
		a := sc.rvalue(sc.eval(x.Args[i]))
		if pt != nil {
			a = sc.coerceTo(a, pt)
			if a.GT == nil || a.S == ps {
				a.GT = pt
			}
		} else if a.Lit != nil {
			a = Val{T: bigS(a.Lit), S: "Int"}
		}
		if a.S != ps {
			sc.fail("macro %s argument %d: sort %s, expected %s", sf.Name, i+1, a.S, ps)
		}
		nb[p.Name] = a
	}
	saved, savedWhere := sc.bound, sc.where
	savedPkg := sc.pkg
	if mp := sc.c.P.pkgOfFile(sf.File); mp != nil {
		sc.pkg = mp
	}
	defer func() { sc.pkg = savedPkg }()
	sc.bound = nb
	if sc.macroDepth > 20 {
		sc.fail("macro expansion too deep (recursive macro %s?)", sf.Name)
	}
	sc.macroDepth++
	v := sc.rvalue(sc.eval(sf.Body.E))
	sc.macroDepth--
	sc.bound, sc.where = saved, savedWhere
	rt, rs := sc.resolveSpecType(sf.Ret)
	v = sc.coerceTo(v, rtOr(rt, v.GT))
	if v.S != rs {
		sc.fail("macro %s: body has sort %s, declared %s", sf.Name, v.S, rs)
	}
	return v
}

func rtOr(a, b types.Type) types.Type {
	if a != nil {
		return a
	}
	return b
}

func (cs *Contracts) theoryOfSort(name string) *Theory {
	for _, th := range cs.Theories {
		if th.Sorts[name] {
			return th
		}
	}
	return nil
}

func (cs *Contracts) theoryOfConst(name string) (*Theory, string) {
	for _, th := range cs.Theories {
		if s, ok := th.Consts[name]; ok {
			return th, s
		}
	}
	return nil, ""
}

func (cs *Contracts) theoryOfFun(name string) (*Theory, *TheoryFun) {
	for _, th := range cs.Theories {
		if f, ok := th.Funs[name]; ok {
			return th, f
		}
	}
	return nil, nil
}

// needTheory emits the theory's SMT text once per query context.
func (c *Ctx) needTheory(th *Theory) {
	if c.declared["theory:"+th.Name] {
		return
	}
	c.declared["theory:"+th.Name] = true
	if c.bv {
		panic(unsupportedErr("theory " + th.Name + " is only available in int mode"))
	}
	c.needBytesTheory()
	for _, l := range th.Smt {
		c.decls = append(c.decls, l)
	}
	for _, a := range th.Axioms {
		c.axiomsUsed[th.Name+":"+a] = true
	}
	for _, a := range th.Defs {
		c.axiomsUsed[th.Name+":"+a+" (definition)"] = true
	}
	c.theoriesUsed[th.Name] = true
}
