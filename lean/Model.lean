
/-!
A concrete model of the background theory T-Bytes (govc/arith.go, govc/smt.go): byte strings are lists of
`Fin 256`; the SMT functions are interpreted below. `Statements.lean` (GENERATED from the SMT-LIB text of
the axioms on every run) states each axiom over this model; `Proofs.lean` proves them. A model in which all
axioms hold shows that the assumed theory is consistent (relative to Lean's logic) - the property that
failed before session 4 (bat_range against the unclamped seq8 laws).
-/
set_option autoImplicit false

namespace TBytes

abbrev Bytes := List (Fin 256)

def b8 (v : Int) : Int := if 0 ≤ v ∧ v ≤ 255 then v else 0

theorem b8_range (v : Int) : 0 ≤ b8 v ∧ b8 v ≤ 255 := by
  unfold b8; split <;> omega

def toByte (v : Int) : Fin 256 := ⟨(b8 v).toNat, by have := b8_range v; omega⟩

def blen (b : Bytes) : Int := (b.length : Int)
def bempty : Bytes := []
def bcat (a b : Bytes) : Bytes := a ++ b
def bunit (x : Int) : Bytes := [toByte x]
def bat (b : Bytes) (i : Int) : Int := if 0 ≤ i then (((b.getD i.toNat 0 : Fin 256).val : Nat) : Int) else 0
def bsub (a : Bytes) (i j : Int) : Bytes := (a.drop i.toNat).take (j - i).toNat

section
variable {Ref : Type} (elem : Ref → Int → Ref)
/-- content of the slice of array `r` at offset `o`, length `n`, in the heap component `E` -/
def seq8 (E : Ref → Int) (r : Ref) (o n : Int) : Bytes :=
  (List.range n.toNat).map (fun (k : Nat) => toByte (E (elem r (o + (k : Int)))))
end

end TBytes
