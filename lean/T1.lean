import Model
open TBytes
theorem cat_len (a b : Bytes) : blen (bcat a b) = blen a + blen b := by
  simp [blen, bcat]
