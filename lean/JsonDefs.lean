import Proofs
/-!
The definitional layer of T-JSON (contracts/std/json.spec: def-axiom / proof-def lines) over the byte-string
model: the symbols the SMT side leaves uninterpreted (jrun, jprefix, allSafe, scalarChunk, valueChunk,
pushObjs) are DEFINED here by recursion, and the defining equations assumed on the SMT side are proved.
The step function and the byte classes are parameters: the equations hold for any of them that treat an
out-of-range integer like the byte 0 (hypotheses `*_clamp`; on the SMT side these are consequences of
the define-funs: every byte class is a subset of 0..255 and jstep rejects both). Statements are
transcribed by hand from json.spec (unlike Statements.lean) - they are few and fixed in form.
-/
open TBytes
set_option autoImplicit false
namespace TJson

section
variable {JS Stack : Type} (jstep : JS → Int → JS)
variable (h_step_clamp : ∀ q x, jstep q x = jstep q (b8 x) ∨ (0 ≤ x ∧ x ≤ 255))

def jrun (q : JS) (b : Bytes) : JS := b.foldl (fun q x => jstep q ((x.val : Nat) : Int)) q

theorem b8_val (x : Fin 256) : b8 ((x.val : Nat) : Int) = ((x.val : Nat) : Int) := by
  have := x.isLt; unfold b8; split <;> omega

theorem toByte_val_int (x : Int) : (((toByte x).val : Nat) : Int) = b8 x := by
  have := b8_range x; simp only [toByte]; omega

theorem run_empty (q : JS) : jrun jstep q bempty = q := rfl

include h_step_clamp in
theorem run_snoc (q : JS) (a : Bytes) (x : Int) :
    jrun jstep q (bcat a (bunit x)) = jstep (jrun jstep q a) x := by
  simp only [jrun, bcat, bunit, List.foldl_append, List.foldl_cons, List.foldl_nil, toByte_val_int]
  rcases h_step_clamp (List.foldl (fun q x => jstep q ((x.val : Nat) : Int)) q a) x with h | h
  · exact h.symm
  · have : b8 x = x := by unfold b8; rw [if_pos h]
    rw [this]

def jprefix (q : JS) (b : Bytes) : JS := jrun jstep q (bsub b 0 (blen b - 1))
theorem jprefix_def (q : JS) (b : Bytes) : jprefix jstep q b = jrun jstep q (bsub b 0 (blen b - 1)) := rfl

-- allSafe
variable (safeByte : Int → Prop) (h_safe_clamp : ∀ x, safeByte x ↔ safeByte (b8 x))
def allSafe (b : Bytes) : Prop := ∀ x ∈ b, safeByte ((x.val : Nat) : Int)
theorem safe_def_empty : allSafe safeByte bempty := by intro x hx; cases hx
include h_safe_clamp in
theorem safe_def_snoc (c : Bytes) (x : Int) :
    allSafe safeByte (bcat c (bunit x)) ↔ (allSafe safeByte c ∧ safeByte x) := by
  simp only [allSafe, bcat, bunit, List.mem_append, List.mem_singleton]
  constructor
  · intro h
    refine ⟨fun y hy => h y (Or.inl hy), ?_⟩
    have := h (toByte x) (Or.inr rfl)
    rw [toByte_val_int] at this
    exact (h_safe_clamp x).mpr this
  · rintro ⟨h1, h2⟩ y (hy | hy)
    · exact h1 y hy
    · subst hy; rw [toByte_val_int]; exact (h_safe_clamp x).mp h2

-- scalarChunk: a start byte followed by scalar bytes
variable (startB scalarB : Int → Prop) (h_start_clamp : ∀ x, startB x ↔ startB (b8 x)) (h_scalar_clamp : ∀ x, scalarB x ↔ scalarB (b8 x))
def scalarChunk : Bytes → Prop
  | [] => False
  | x :: t => startB ((x.val : Nat) : Int) ∧ ∀ y ∈ t, scalarB ((y.val : Nat) : Int)
theorem scalar_def_empty : ¬ scalarChunk startB scalarB bempty := by intro h; exact h
include h_start_clamp h_scalar_clamp in
theorem scalar_def_snoc (c : Bytes) (x : Int) :
    scalarChunk startB scalarB (bcat c (bunit x)) ↔
      ((c = bempty ∧ startB x) ∨ (scalarChunk startB scalarB c ∧ scalarB x)) := by
  cases c with
  | nil =>
    simp only [bcat, bunit, bempty, List.nil_append, scalarChunk, toByte_val_int]
    constructor
    · intro h; exact Or.inl ⟨trivial, (h_start_clamp x).mpr h.1⟩
    · rintro (⟨_, h⟩ | ⟨h, _⟩)
      · exact ⟨(h_start_clamp x).mp h, by intro y hy; cases hy⟩
      · exact h.elim
  | cons y t =>
    simp only [bcat, bunit, bempty, List.cons_append, scalarChunk, List.mem_append, List.mem_singleton]
    constructor
    · rintro ⟨h1, h2⟩
      refine Or.inr ⟨⟨h1, fun z hz => h2 z (Or.inl hz)⟩, ?_⟩
      have := h2 (toByte x) (Or.inr rfl)
      rw [toByte_val_int] at this
      exact (h_scalar_clamp x).mpr this
    · rintro (⟨h, _⟩ | ⟨⟨h1, h2⟩, h3⟩)
      · cases h
      · refine ⟨h1, ?_⟩
        rintro z (hz | hz)
        · exact h2 z hz
        · subst hz; rw [toByte_val_int]; exact (h_scalar_clamp x).mp h3

-- valueChunk is defined by the formula itself (value_def): nothing to prove beyond well-formedness
variable (valueStart valueDone : JS → Prop) (j_stack : JS → Stack)
def valueChunk (c : Bytes) : Prop :=
  blen c > 0 ∧ ∀ q, valueStart q → (valueDone (jrun jstep q c) ∧ j_stack (jrun jstep q c) = j_stack q)
theorem value_def (c : Bytes) : valueChunk jstep valueStart valueDone j_stack c ↔
    (blen c > 0 ∧ ∀ q, valueStart q → (valueDone (jrun jstep q c) ∧ j_stack (jrun jstep q c) = j_stack q)) := Iff.rfl

-- pushObjs by recursion on the natural number
variable (push : Stack → Stack)
def pushObjs (b : Stack) (n : Int) : Stack := Nat.rec b (fun _ s => push s) n.toNat
theorem push_zero (b : Stack) : pushObjs push b 0 = b := rfl
theorem push_unfold (b : Stack) (n : Int) (h : n ≥ 1) : pushObjs push b n = push (pushObjs push b (n - 1)) := by
  obtain ⟨m, rfl⟩ := Int.eq_ofNat_of_zero_le (by omega : (0:Int) ≤ n)
  cases m with
  | zero => omega
  | succ k =>
    have e : (((k + 1 : Nat) : Int) - 1).toNat = k := by omega
    simp only [pushObjs, Int.toNat_natCast, e]
end

end TJson
