import Statements
/-! Proofs that the model of Model.lean satisfies every T-Bytes axiom (statements GENERATED in Statements.lean). -/
open TBytes
set_option autoImplicit false
namespace TBytes

theorem toByte_val (x : Fin 256) : toByte ((x.val : Nat) : Int) = x := by
  apply Fin.ext
  have h := x.isLt
  simp only [toByte, b8]
  split <;> omega

theorem toByte_b8 (v : Int) : toByte (b8 v) = toByte v := by
  apply Fin.ext
  simp only [toByte]
  have h := b8_range v
  have : b8 (b8 v) = b8 v := by
    show (if 0 ≤ b8 v ∧ b8 v ≤ 255 then b8 v else 0) = b8 v
    rw [if_pos h]
  rw [this]

theorem cat_len_holds : ax_cat_len := by
  intro a b; simp [blen, bcat]

theorem cat_unit_l_holds : ax_cat_unit_l := by
  intro a; simp [bcat, bempty]

theorem cat_unit_r_holds : ax_cat_unit_r := by
  intro a; simp [bcat, bempty]

theorem cat_assoc_holds : ax_cat_assoc := by
  intro a b d; simp [bcat, List.append_assoc]

theorem cat_assoc_r_holds : ax_cat_assoc_r := by
  intro a b d; simp [bcat, List.append_assoc]

theorem unit_len_holds : ax_unit_len := by
  intro x; simp [blen, bunit]

theorem len_nonneg_holds : ax_len_nonneg := by
  intro a; simp only [blen]; omega

theorem len_empty_holds : ax_len_empty := by
  simp [ax_len_empty, blen, bempty]

theorem len0_empty_holds : ax_len0_empty := by
  intro a h
  simp only [blen] at h
  have : a.length = 0 := by omega
  simpa [bempty] using List.eq_nil_of_length_eq_zero this

theorem unit_at_holds : ax_unit_at := by
  intro x h
  simp only [bat, bunit, toByte, b8]
  simp [h.1, h.2]
  omega

theorem bat_range_holds : ax_bat_range := by
  intro b i
  simp only [bat]
  split
  · have := (b.getD i.toNat 0).isLt
    omega
  · omega


theorem sub_len_holds : ax_sub_len := by
  intro a i j h
  obtain ⟨h0, h1, h2⟩ := h
  simp only [blen, bsub] at *
  simp only [List.length_take, List.length_drop]
  omega

theorem sub_empty_holds : ax_sub_empty := by
  intro a i
  simp [bsub, bempty]

theorem sub_all_holds : ax_sub_all := by
  intro a
  simp [bsub, blen]

theorem getD_eq (b : Bytes) (n : Nat) (h : n < b.length) : b.getD n 0 = b[n] := by
  simp [List.getD, List.getElem?_eq_getElem h]

theorem getD_ge (b : Bytes) (n : Nat) (h : b.length ≤ n) : b.getD n 0 = 0 := by
  simp [List.getD, List.getElem?_eq_none h]

theorem cat_at_holds : ax_cat_at := by
  intro a b i
  simp only [bat, bcat, blen]
  by_cases hi : 0 ≤ i
  · obtain ⟨n, rfl⟩ := Int.eq_ofNat_of_zero_le hi
    simp only [Int.toNat_natCast, hi, if_true]
    by_cases hlt : (n : Int) < (a.length : Int)
    · have hn : n < a.length := by omega
      simp only [hlt, if_true]
      rw [getD_eq (a ++ b) n (by simp; omega), getD_eq a n hn, List.getElem_append_left hn]
    · have hn : a.length ≤ n := by omega
      simp only [hlt, if_false]
      have hnn : (0:Int) ≤ (n:Int) - (a.length:Int) := by omega
      simp only [hnn, if_true]
      have e : ((n:Int) - (a.length:Int)).toNat = n - a.length := by omega
      rw [e]
      by_cases hb : n - a.length < b.length
      · rw [getD_eq (a ++ b) n (by simp; omega), getD_eq b _ hb, List.getElem_append_right hn]
      · rw [getD_ge (a ++ b) n (by simp; omega), getD_ge b _ (by omega)]
  · have hlt : i < (a.length : Int) := by omega
    have hneg : ¬ (0 ≤ i - (a.length:Int)) := by omega
    simp [hi, hlt]


theorem bsub_nat (a : Bytes) (i j : Nat) : bsub a (i : Int) (j : Int) = (a.drop i).take (j - i) := by
  simp only [bsub, Int.toNat_natCast]
  have e : ((j : Int) - (i : Int)).toNat = j - i := by omega
  rw [e]

theorem sub_at_holds : ax_sub_at := by
  intro a i j k h
  obtain ⟨h0, h1, h2, h3, h4⟩ := h
  obtain ⟨i', rfl⟩ := Int.eq_ofNat_of_zero_le h0
  obtain ⟨j', rfl⟩ := Int.eq_ofNat_of_zero_le (by omega : (0:Int) ≤ j)
  obtain ⟨k', rfl⟩ := Int.eq_ofNat_of_zero_le h3
  simp only [blen] at h2
  rw [bsub_nat]
  simp only [bat]
  have hk : (0:Int) ≤ (k':Int) := by omega
  have hik : (0:Int) ≤ (i':Int) + (k':Int) := by omega
  simp only [hk, hik, if_true, Int.toNat_natCast]
  have e : ((i':Int) + (k':Int)).toNat = i' + k' := by omega
  rw [e]
  have hlen : k' < ((a.drop i').take (j' - i')).length := by
    simp only [List.length_take, List.length_drop]; omega
  rw [getD_eq _ k' hlen, getD_eq a (i' + k') (by omega)]
  simp [List.getElem_take, List.getElem_drop]

theorem sub_split_holds : ax_sub_split := by
  intro a i j k h
  obtain ⟨h0, h1, h2, h3⟩ := h
  obtain ⟨i', rfl⟩ := Int.eq_ofNat_of_zero_le h0
  obtain ⟨j', rfl⟩ := Int.eq_ofNat_of_zero_le (by omega : (0:Int) ≤ j)
  obtain ⟨k', rfl⟩ := Int.eq_ofNat_of_zero_le (by omega : (0:Int) ≤ k)
  simp only [blen] at h3
  rw [bsub_nat, bsub_nat, bsub_nat]
  simp only [bcat]
  have hij : i' ≤ j' := by omega
  have hjk : j' ≤ k' := by omega
  have e1 : k' - i' = (j' - i') + (k' - j') := by omega
  have e2 : a.drop j' = (a.drop i').drop (j' - i') := by
    rw [List.drop_drop]; congr 1; omega
  rw [e1, e2, List.take_add]

theorem sub_snoc_holds : ax_sub_snoc := by
  intro a i j h
  obtain ⟨h0, h1, h2⟩ := h
  obtain ⟨i', rfl⟩ := Int.eq_ofNat_of_zero_le h0
  obtain ⟨j', rfl⟩ := Int.eq_ofNat_of_zero_le (by omega : (0:Int) ≤ j)
  simp only [blen] at h2
  have hj : j' < a.length := by omega
  have e : ((j':Int) + 1) = ((j' + 1 : Nat) : Int) := by omega
  rw [e, bsub_nat, bsub_nat]
  simp only [bcat, bunit, bat]
  have hj0 : (0:Int) ≤ (j':Int) := by omega
  simp only [hj0, if_true, Int.toNat_natCast]
  rw [getD_eq a j' hj, toByte_val]
  have e1 : j' + 1 - i' = (j' - i') + 1 := by omega
  rw [e1, List.take_add]
  have e2 : i' + (j' - i') = j' := by omega
  have e3 : List.take 1 (List.drop (j' - i') (List.drop i' a)) = [a[j']] := by
    rw [List.drop_drop, e2, List.drop_eq_getElem_cons hj]
    rfl
  rw [e3]


theorem sub_last_holds : ax_sub_last := by
  intro a h
  simp only [blen] at h
  have hl : 0 < a.length := by omega
  have e : ((blen a) - 1) = ((a.length - 1 : Nat) : Int) := by simp only [blen]; omega
  have h1 := sub_snoc_holds a 0 ((a.length - 1 : Nat) : Int) (by simp only [blen]; omega)
  have e2 : (((a.length - 1 : Nat) : Int) + 1) = blen a := by simp only [blen]; omega
  rw [e2, sub_all_holds a] at h1
  rw [e]
  exact h1.symm

theorem sub_sub_holds : ax_sub_sub := by
  intro a j n m h
  obtain ⟨h0, h1, h2, h3⟩ := h
  obtain ⟨j', rfl⟩ := Int.eq_ofNat_of_zero_le h0
  obtain ⟨m', rfl⟩ := Int.eq_ofNat_of_zero_le h1
  obtain ⟨n', rfl⟩ := Int.eq_ofNat_of_zero_le (by omega : (0:Int) ≤ n)
  simp only [blen] at h3
  have e : ((j':Int) + (m':Int)) = ((j' + m' : Nat) : Int) := by omega
  have z : (0:Int) = ((0:Nat):Int) := by omega
  rw [e, z, bsub_nat, bsub_nat, bsub_nat]
  simp only [List.drop_zero, Nat.sub_zero]
  have e1 : j' + m' - j' = m' := by omega
  rw [e1, List.take_take]
  congr 1
  omega

section
variable {Ref : Type} (elem : Ref → Int → Ref)

theorem seq8_nat (E : Ref → Int) (r : Ref) (o : Int) (n : Nat) :
    seq8 elem E r o (n : Int) = (List.range n).map (fun (k : Nat) => toByte (E (elem r (o + (k : Int))))) := by
  simp [seq8]

theorem seq_len_holds : ax_seq_len elem := by
  intro E r o n h
  obtain ⟨n', rfl⟩ := Int.eq_ofNat_of_zero_le h
  rw [seq8_nat]
  simp [blen]

theorem seq_unit_holds : ax_seq_unit elem := by
  intro E r o
  have z : (1:Int) = ((1:Nat):Int) := by omega
  rw [z, seq8_nat]
  simp [bunit, toByte_b8, List.range_succ]

theorem seq_snoc_holds : ax_seq_snoc elem := by
  intro E r o n h
  obtain ⟨n', rfl⟩ := Int.eq_ofNat_of_zero_le h
  have e : ((n':Int) + 1) = ((n' + 1 : Nat) : Int) := by omega
  rw [e, seq8_nat, seq8_nat]
  simp [bcat, bunit, toByte_b8, List.range_succ]

theorem seq_frame_holds : ax_seq_frame elem := by
  intro E F r o n h
  by_cases hn : 0 ≤ n
  · obtain ⟨n', rfl⟩ := Int.eq_ofNat_of_zero_le hn
    rw [seq8_nat, seq8_nat]
    apply List.map_congr_left
    intro k hk
    have hk' : k < n' := by simpa using hk
    rw [h (k : Int) ⟨by omega, by omega⟩]
  · have e : n.toNat = 0 := by omega
    simp [seq8, e]

theorem seq_at_holds : ax_seq_at elem := by
  intro E r o n k h
  obtain ⟨h0, h1⟩ := h
  obtain ⟨k', rfl⟩ := Int.eq_ofNat_of_zero_le h0
  obtain ⟨n', rfl⟩ := Int.eq_ofNat_of_zero_le (by omega : (0:Int) ≤ n)
  rw [seq8_nat]
  simp only [bat, h0, if_true, Int.toNat_natCast]
  have hk : k' < n' := by omega
  rw [getD_eq _ k' (by simp; exact hk)]
  simp only [List.getElem_map, List.getElem_range, toByte]
  have := b8_range (E (elem r (o + (k' : Int))))
  simp
  omega

theorem seq_sub_holds : ax_seq_sub elem := by
  intro E r o n i j h
  obtain ⟨h0, h1, h2⟩ := h
  obtain ⟨i', rfl⟩ := Int.eq_ofNat_of_zero_le h0
  obtain ⟨j', rfl⟩ := Int.eq_ofNat_of_zero_le (by omega : (0:Int) ≤ j)
  obtain ⟨n', rfl⟩ := Int.eq_ofNat_of_zero_le (by omega : (0:Int) ≤ n)
  have e : ((j':Int) - (i':Int)) = ((j' - i' : Nat) : Int) := by omega
  rw [e, seq8_nat, seq8_nat, bsub_nat]
  apply List.ext_getElem
  · simp; omega
  · intro m hm1 hm2
    simp only [List.getElem_take, List.getElem_drop, List.getElem_map, List.getElem_range]
    congr 3
    omega
end

end TBytes
