package zapcore

import (
	"net"
	"testing"
)

// F3: Field.Equals must never panic; a Stringer field whose dynamic type is not
// comparable (net.IP is a []byte) made f == other panic.
func TestVerifF3EqualsUncomparableStringer(t *testing.T) {
	defer func() {
		if r := recover(); r != nil {
			t.Fatalf("Field.Equals panicked: %v", r)
		}
	}()
	a := Field{Key: "ip", Type: StringerType, Interface: net.IP{10, 0, 0, 1}}
	b := Field{Key: "ip", Type: StringerType, Interface: net.IP{10, 0, 0, 1}}
	if !a.Equals(b) {
		t.Fatalf("fields built from equal inputs must compare equal")
	}
}
