package zapcore_test

import (
	"encoding/json"
	"testing"
	"time"

	"go.uber.org/zap/zapcore"
)

// F1: a custom time layout containing a quote or a backslash yields an invalid JSON line.
func TestF1TimeLayoutEscaping(t *testing.T) {
	for _, layout := range []string{`2006-01-02 "15:04"`, `2006\01\02`, "2006-01-02\t15:04"} {
		cfg := zapcore.EncoderConfig{MessageKey: "msg", TimeKey: "ts", EncodeTime: zapcore.TimeEncoderOfLayout(layout)}
		enc := zapcore.NewJSONEncoder(cfg)
		buf, err := enc.EncodeEntry(zapcore.Entry{Message: "m", Time: time.Unix(1700000000, 0).UTC()}, nil)
		if err != nil {
			t.Fatal(err)
		}
		var m map[string]interface{}
		if err := json.Unmarshal(buf.Bytes(), &m); err != nil {
			t.Errorf("layout %q: output %q is not valid JSON: %v", layout, buf.String(), err)
			continue
		}
		if want := time.Unix(1700000000, 0).UTC().Format(layout); m["ts"] != want {
			t.Errorf("layout %q: ts = %q, want %q", layout, m["ts"], want)
		}
	}
}
