package zap

import (
	"log"
	"testing"

	"go.uber.org/zap/zapcore"
)

// F16: RedirectStdLogAt must leave the standard logger untouched when it fails.
func TestVerifF16RedirectStdLogAtError(t *testing.T) {
	oldFlags, oldPrefix := log.Flags(), log.Prefix()
	defer func() { log.SetFlags(oldFlags); log.SetPrefix(oldPrefix) }()
	log.SetFlags(log.Lshortfile | log.Ldate)
	log.SetPrefix("pre: ")
	_, err := RedirectStdLogAt(NewNop(), zapcore.Level(99))
	if err == nil {
		t.Fatal("expected an error for an unrecognized level")
	}
	if log.Flags() != log.Lshortfile|log.Ldate || log.Prefix() != "pre: " {
		t.Fatalf("std logger changed although redirection failed: flags=%d prefix=%q", log.Flags(), log.Prefix())
	}
}
