package zapcore_test

import (
	"encoding/json"
	"testing"
	"time"

	"go.uber.org/zap/zapcore"
)

// F1b: a layout with a zone abbreviation (MST) copies the location's name into the JSON string; a
// zone name needing escapes made the line invalid JSON (found by a seeding sub-agent after fix F1).
func TestF1bZoneAbbreviationEscaping(t *testing.T) {
	cfg := zapcore.EncoderConfig{MessageKey: "m", TimeKey: "ts", EncodeTime: zapcore.TimeEncoderOfLayout(time.RFC1123)}
	enc := zapcore.NewJSONEncoder(cfg)
	at := time.Date(2020, 1, 1, 0, 0, 0, 0, time.FixedZone("a\"b\nc", 0))
	buf, err := enc.EncodeEntry(zapcore.Entry{Message: "x", Time: at}, nil)
	if err != nil {
		t.Fatal(err)
	}
	var m map[string]interface{}
	if err := json.Unmarshal(buf.Bytes(), &m); err != nil {
		t.Fatalf("output %q is not valid JSON: %v", buf.String(), err)
	}
	if want := at.Format(time.RFC1123); m["ts"] != want {
		t.Errorf("ts = %q, want %q", m["ts"], want)
	}
}
