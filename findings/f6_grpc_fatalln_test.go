package zapgrpc

import (
	"testing"

	"go.uber.org/zap"
	"go.uber.org/zap/zapcore"
)

type f6Hook struct{ ran *bool }

func (h f6Hook) OnWrite(*zapcore.CheckedEntry, []zapcore.Field) { *h.ran = true }

// F6: Fatalln must run the fatal action even when the Fatal level is disabled.
func TestVerifF6FatallnDisabledLevel(t *testing.T) {
	ran := false
	none := zap.LevelEnablerFunc(func(zapcore.Level) bool { return false })
	core := zapcore.NewCore(zapcore.NewJSONEncoder(zapcore.EncoderConfig{}), zapcore.AddSync(discard{}), none)
	l := NewLogger(zap.New(core, zap.WithFatalHook(f6Hook{&ran})))
	l.Fatalln("bye")
	if !ran {
		t.Fatalf("Fatalln did not run the fatal action (Fatal level disabled)")
	}
	ran = false
	l.Fatal("bye")
	if !ran {
		t.Fatalf("Fatal did not run the fatal action")
	}
}

type discard struct{}

func (discard) Write(p []byte) (int, error) { return len(p), nil }
