package zapslog

import (
	"context"
	"log/slog"
	"testing"
	"time"

	"go.uber.org/zap/zapcore"
	"go.uber.org/zap/zaptest/observer"
)

// F13/F14 (slog.Handler contract, exercised on the Handler directly as testing/slogtest does):
// a group without attributes is omitted; an empty group name opens no group.
func TestF13EmptyGroupAndEmptyName(t *testing.T) {
	fac, logs := observer.New(zapcore.DebugLevel)
	h := NewHandler(fac)
	rec := func(attrs ...slog.Attr) slog.Record {
		r := slog.NewRecord(time.Unix(1, 0), slog.LevelInfo, "m", 0)
		r.AddAttrs(attrs...)
		return r
	}

	_ = h.WithAttrs([]slog.Attr{slog.Group("empty"), slog.Int("x", 1)}).Handle(context.Background(), rec())
	got := logs.TakeAll()[0].ContextMap()
	if _, ok := got["empty"]; ok {
		t.Errorf("F13: group without attributes was emitted: %v", got)
	}

	_ = h.WithGroup("").Handle(context.Background(), rec(slog.Int("y", 2)))
	got = logs.TakeAll()[0].ContextMap()
	if v, ok := got["y"]; !ok || v != int64(2) {
		t.Errorf("F14: WithGroup(\"\") opened a group: %v", got)
	}
}
