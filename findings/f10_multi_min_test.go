package zapcore

import "testing"

type f10Sink struct{ n int }

func (s f10Sink) Write(p []byte) (int, error) { return s.n, nil }
func (s f10Sink) Sync() error                 { return nil }

// F10: a multi-WriteSyncer must report the smallest count any sink reported.
func TestVerifF10MultiWriteSyncerMin(t *testing.T) {
	ws := NewMultiWriteSyncer(f10Sink{0}, f10Sink{5})
	n, err := ws.Write([]byte("hello"))
	if err != nil {
		t.Fatal(err)
	}
	if n != 0 {
		t.Fatalf("sink counts [0,5]: got %d, want the minimum 0", n)
	}
}
