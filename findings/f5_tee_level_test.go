package zapcore

import (
	"io"
	"testing"
)

type f5None struct{}

func (f5None) Enabled(Level) bool { return false }

// F5: a tee in which no branch enables any level must report InvalidLevel.
func TestVerifF5TeeLevelNothingEnabled(t *testing.T) {
	none := f5None{}
	enc := NewJSONEncoder(EncoderConfig{MessageKey: "m"})
	tee := NewTee(NewCore(enc, AddSync(io.Discard), none), NewCore(enc, AddSync(io.Discard), none))
	got := LevelOf(tee)
	if got != InvalidLevel {
		t.Fatalf("LevelOf(tee of two all-disabled cores) = %v, want InvalidLevel; Enabled(%v) = %v", got, got, tee.Enabled(got))
	}
}
