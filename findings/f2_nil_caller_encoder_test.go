package zapcore_test

import (
	"encoding/json"
	"testing"

	"go.uber.org/zap/zapcore"
)

// F2: a JSON encoder configured with a CallerKey but no EncodeCaller panicked (nil function call) on
// the first entry that carries a caller; every other absent sub-encoder falls back or is skipped.
func TestF2NilCallerEncoder(t *testing.T) {
	enc := zapcore.NewJSONEncoder(zapcore.EncoderConfig{MessageKey: "msg", CallerKey: "caller"})
	ent := zapcore.Entry{Message: "m", Caller: zapcore.EntryCaller{Defined: true, File: "a/b/c.go", Line: 7}}
	var out []byte
	func() {
		defer func() {
			if r := recover(); r != nil {
				t.Fatalf("EncodeEntry panicked: %v", r)
			}
		}()
		buf, err := enc.EncodeEntry(ent, nil)
		if err != nil {
			t.Fatal(err)
		}
		out = buf.Bytes()
	}()
	var m map[string]interface{}
	if err := json.Unmarshal(out, &m); err != nil {
		t.Fatalf("output %q is not valid JSON: %v", out, err)
	}
	if m["caller"] != "a/b/c.go:7" {
		t.Errorf("caller = %v, want the default representation a/b/c.go:7", m["caller"])
	}
}
