package zap

import (
	"testing"

	"go.uber.org/zap/zapcore"
)

// F9: the std-log bridge writer must report len(p) when it accepted all of p.
func TestVerifF9LoggerWriterCount(t *testing.T) {
	l := New(zapcore.NewNopCore())
	w := &loggerWriter{logFunc: l.Info}
	p := []byte("hello\n")
	n, err := w.Write(p)
	if err != nil {
		t.Fatal(err)
	}
	if n != len(p) {
		t.Fatalf("Write(%q) = %d, nil; want %d (short count without error)", p, n, len(p))
	}
}
