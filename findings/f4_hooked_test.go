package zapcore

import (
	"io"
	"testing"
)

// F4: hooks must fire exactly for the entries their wrapped core accepts.
func TestVerifF4HookedDeclined(t *testing.T) {
	enc := NewJSONEncoder(EncoderConfig{MessageKey: "m"})
	accepting := NewCore(enc, AddSync(io.Discard), DebugLevel)
	declining := NewCore(enc, AddSync(io.Discard), ErrorLevel)
	fired := 0
	h := RegisterHooks(declining, func(Entry) error { fired++; return nil })
	tee := NewTee(accepting, h)
	ent := Entry{Level: InfoLevel, Message: "x"}
	if ce := tee.Check(ent, nil); ce != nil {
		ce.Write()
	}
	if fired != 0 {
		t.Fatalf("hook fired %d time(s) for an entry its wrapped core declined (info < error)", fired)
	}
}
