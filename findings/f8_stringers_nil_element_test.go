package zap

import (
	"testing"

	"go.uber.org/zap/zapcore"
	"go.uber.org/zap/zaptest/observer"
)

type f8str struct{ s string }

func (p *f8str) String() string { return p.s } // nil receiver: panics

func TestF8StringersNilElement(t *testing.T) {
	enc := zapcore.NewJSONEncoder(zapcore.EncoderConfig{MessageKey: "m"})
	_ = observer.New
	var nilp *f8str
	defer func() {
		if r := recover(); r != nil {
			t.Fatalf("F8: logging call panicked: %v", r)
		}
	}()
	buf, err := enc.EncodeEntry(zapcore.Entry{Message: "x"}, []zapcore.Field{Stringers("k", []*f8str{{"a"}, nilp}), Int("after", 1)})
	t.Logf("out=%q err=%v", buf, err)
	// single Stringer for comparison
	buf2, _ := enc.EncodeEntry(zapcore.Entry{Message: "x"}, []zapcore.Field{Stringer("k", nilp), Int("after", 1)})
	t.Logf("single=%q", buf2)
}
