package zap

import (
	"net/url"
	"testing"

	"go.uber.org/zap/zapcore"
)

type f15Sink struct {
	zapcore.WriteSyncer
	closed *int
}

func (s f15Sink) Close() error { *s.closed++; return nil }

// F15: Config.Build must not leave sinks open when it returns an error.
func TestVerifF15BuildMissingLevelLeaksSinks(t *testing.T) {
	opened, closed := 0, 0
	if err := RegisterSink("f15leak", func(*url.URL) (Sink, error) {
		opened++
		return f15Sink{zapcore.AddSync(discardF15{}), &closed}, nil
	}); err != nil {
		t.Fatal(err)
	}
	cfg := Config{Encoding: "json", OutputPaths: []string{"f15leak://x"}, ErrorOutputPaths: []string{"f15leak://y"}}
	if _, err := cfg.Build(); err == nil {
		t.Fatal("expected 'missing Level'")
	}
	if opened != closed {
		t.Fatalf("Build failed but left sinks open: opened=%d closed=%d", opened, closed)
	}
}

type discardF15 struct{}

func (discardF15) Write(p []byte) (int, error) { return len(p), nil }
