package ground

import (
	"bytes"
	"testing"
)

// Ground axiom lower_caps (zapcore/zz_contracts_verif.go): executed against the real library.
func TestGroundC20_lower_caps(t *testing.T) {
	for in, want := range map[string]string{"DEBUG": "debug", "INFO": "info", "WARN": "warn", "ERROR": "error", "DPANIC": "dpanic", "PANIC": "panic", "FATAL": "fatal"} {
		if got := string(bytes.ToLower([]byte(in))); got != want {
			t.Errorf("bytes.ToLower(%q) = %q, want %q", in, got, want)
		}
	}
}
