module ground

go 1.19
