#!/bin/bash
# Builds govc offline from the module cache (golang.org/x/tools v0.29.0).
set -e
cd "$(dirname "$0")/govc"
export GOFLAGS=-mod=mod GOPROXY=off GOSUMDB=off GOTOOLCHAIN=local
mkdir -p ../bin
go build -o ../bin/govc .
