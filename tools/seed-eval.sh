#!/bin/bash
# usage: seed-eval.sh <PROP> [src dir with patch.diff, demo_test.go, meta.json]
# Confirms a seeded change on a scratch copy of /repo (compiles, suite passes with it, demo fails
# with it and passes without it), then runs the property check against the changed copy.
set -u
prop=$1; src=${2:-/tmp/seed_out/$prop}
export GOFLAGS=-mod=mod GOPROXY=off GOSUMDB=off GOTOOLCHAIN=local
d=$(mktemp -d /tmp/seedeval.XXXXXX | tr 'A-Z' 'a-z'); mkdir -p $d; d=$d/zap; mkdir -p $d
rsync -a --exclude .git /repo/ $d/
pkg=$(python3 -c "import json;print(json.load(open('$src/meta.json'))['demo_pkg_dir'])")
run=$(python3 -c "import json;print(json.load(open('$src/meta.json'))['demo_run'])")
cp $src/demo_test.go $d/$pkg/zz_seed_demo_test.go
echo "== demo on unchanged code (must pass)"
(cd $d/$pkg && go test -count=1 -vet=off -run "$run" . 2>&1 | tail -3)
echo "== apply patch"
(cd $d && patch -p1 --no-backup-if-mismatch < $src/patch.diff) || { echo "PATCH DOES NOT APPLY"; rm -rf $(dirname $d); exit 3; }
echo "== demo with change (must fail)"
(cd $d/$pkg && go test -count=1 -vet=off -run "$run" . 2>&1 | tail -4)
rm -f $d/$pkg/zz_seed_demo_test.go
echo "== existing suite with change (must pass)"
(cd $d && go build ./... && go test -count=1 -vet=off ./... 2>&1 | grep -v "^ok\|no test files" | head -10; cd exp && go test -count=1 -vet=off ./... 2>&1 | grep -v "^ok\|no test files" | head -5)
echo "== check $prop against the changed copy"
/verif/bin/govc check --repo $d --prop $prop --scratch $d/.verif-scratch | grep -v "^KNOWN" | sed "s#$d/##g" | head -12
for r in $(ls $d/.verif-scratch/out/replay/$prop/*.json 2>/dev/null | head -6); do python3 -c "
import json
j=json.load(open('$r')); print('   ->', j.get('obligation'), '|', j.get('verdict'), '|', (j.get('descr') or j.get('error') or '')[:160])"; done
rm -rf $(dirname $d)
