#!/bin/bash
# usage: mk-seed-worktree.sh <PROP>   -> /tmp/seedwt/<PROP>/zap : a detached worktree of /repo HEAD with
# the contract files removed (committed there as a scratch base), so a sub-agent sees nothing of /verif.
set -eu
p=$1; d=/tmp/seedwt/$p/zap
mkdir -p /tmp/seedwt/$p
git -C /repo worktree remove --force $d 2>/dev/null || true
git -C /repo worktree add -q --detach $d HEAD
cd $d
git rm -q $(git ls-files | grep -E 'zz_contracts[a-z0-9_]*_verif.go$')
git -c user.name=scratch -c user.email=s@x commit -qm "scratch base (no contract files)"
echo $d
