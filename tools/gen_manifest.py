#!/usr/bin/env python3
"""Generates /verif/MANIFEST.json from the table below (kept next to the contracts it describes)."""
import json, subprocess, os
ROOT = os.path.dirname(os.path.dirname(os.path.abspath(__file__)))
props = [json.loads(l)['id'] for l in open(os.path.join(ROOT, 'properties.jsonl'))]

TECH = "contract-based deductive verification: weakest-precondition style VC generation over go/ssa of the real functions (contracts in //@ comment files under build tag verif), obligations discharged by z3 5.1 / cvc5 1.0"
BASE_NOTE = ("Trusted: govc (own VC generator over go/ssa), the SMT solvers, the assumed contracts of dependencies listed in the evidence "
             "(stdlib, multierr, user callbacks under the encapsulation rely), sequential semantics (no interleavings), termination not proved. ")

claimed = {
 "C11": dict(
   text="Proof per function, for all N, M, tick, timestamps and levels (64-bit bit-vector arithmetic): IncCheckReset window/count contract, counters.get bucket choice and index safety, sampler.Check: one decision, exactly one hook call with the decision applied, forwarded iff sampled, no budget use for disabled/out-of-range levels.",
   note=BASE_NOTE + "Atomic cells are read sequentially (linearizability of sync/atomic assumed); division by a symbolic divisor is an uninterpreted function (congruence only). Count exactness across concurrent window resets is outside.",
   ref="7 (C11)"),
 "C12": dict(
   text="Proof of the safety part: split-freedom precondition at the bufio write (whole-write buffering), stream accounting sunk++pend, buffer bound, flush-then-sync order, Stop idempotence (stopped <=> closed(stop)), lock discipline and unlock on every path, done closed on loop exit.",
   note=BASE_NOTE + "bufio.Writer's contract is assumed (contracts/std/bufio.spec). Liveness, concurrent mixes and crash points are outside (DESIGN.md section 8).",
   ref="7 (C12)"),
 "C13": dict(
   text="Proof: n == len(p) on success for the zap writers under contract, Lock/AddSync/NewMultiWriteSyncer relay and wrapping rules, multi-WriteSyncer: same bytes to every sink, minimum count, all errors folded, Sync reaches every sink (loop invariants over a ghost call log, any number of sinks and outcome vectors).",
   note=BASE_NOTE + "User sinks are arbitrary (n, err) under the encapsulation rely; mutual exclusion for all interleavings follows from the proved lock discipline only by the (unmechanised) lock-invariant meta-theorem.",
   ref="7 (C13)"),
 "C01": dict(
   text="Proof on the real encoder: the bytes EncodeEntry returns are obj ++ LineEnding where obj drives the structural JSON writer automaton (theory T-JSON: containers, keys, colons, commas, strings with escapes, scalar tokens; every byte < 0x20 rejected in every position) from the start state to the accepting state - one syntactically well-formed object, no raw control byte or line break - for every entry, configuration, With-context fragment and field list, any nesting depth. Carried function by function: the escaper safeAppendStringLike (both instances; loop invariant: the copied chunk is safe, the state stays inside the string; escapes two-byte, \\u00XX, \\ufffd), separator decision from the last byte, key/value transitions of all 60-odd Add*/Append* methods (each verified against the ObjectEncoder/ArrayEncoder interface contracts), NaN/Inf quoting, nil/no-op sub-encoder fallbacks, namespace bookkeeping (ghost base stack; AppendObject saves/zeroes/restores the count and always writes the closing brace, also when the marshaler failed), closeOpenNamespaces loop, Clone/clone/newJSONEncoder (fragment invariant), Field.AddTo / addFields / encodeStringer / encodeError (incl. the recovered-panic paths) and zap's own array/object marshalers against the marshaler interface contracts; full frames (no other encoder, buffer or pre-existing byte changes).",
   note=BASE_NOTE + "Assumed: strconv appends one scalar token (finite floats) and safe ASCII for NaN/Inf; time.AppendFormat output is string-safe when the layout is; utf8.DecodeRune(InString) contract; encodeReflected (encoding/json or a user ReflectedEncoder) returns one complete JSON value - trusted, not verified; user marshalers/sub-encoders reach the encoder only through its interface methods (encapsulation rely) and append at most one value; fields are well-typed (built by zap's constructors); the T-JSON fold laws and chunk lemmas are trusted axioms (single-step lemmas json_sep_step, json_no_control discharged). Token-internal number syntax and UTF-8 validity are carried by the assumed strconv/utf8 contracts. Generic marshalers without an instance in the program (objects[T], objectValues, stringers[T]) are not verified.",
   ref="7 (C01)"),
 "C04": dict(
   text="Proof of the sequential mechanisms the property's anchors name, each for all inputs: EncodeEntry returns a fresh, exclusively owned buffer and leaves the shared encoder, its buffer and every pre-existing byte unwritten (per-call private clone and buffer); ioCore.Write hands the sink exactly one Write carrying the whole encoded line and frees the buffer only after that Write returned; lockedWriteSyncer holds its mutex around the inner Write/Sync and releases it on every path; BufferedWriteSyncer.Write buffers whole writes under its mutex (bufio split-freedom precondition); every branch of a tee (Check, Write, Sync) and every core of a CheckedEntry is visited exactly once, in order, regardless of earlier errors.",
   note=BASE_NOTE + "The property's quantifier is over schedules; govc has no interleaving semantics. 'Exactly one intact line per entry for all interleavings' follows from these per-call facts only through the (unmechanised) lock-invariant soundness argument; per-goroutine order at the sink, concurrent Sync/flush ticks and real files are outside.",
   ref="7 (C04)"),
 "C08": dict(
   text="Proof of the pool discipline (sequential): putJSONEncoder resets every field of the encoder before Put (the pool's Put requires the all-zero 'clean' state, Get returns it, so clone starts from a clean object); buffer.Pool.Get returns an empty buffer (reset on Get); getCheckedEntry/reset clear entry, error output, dirty flag, hook and cores; the error-array wrappers are cleared before Put on every path (zapcore.errArrayElem.Free, zap.errArray); Stack.Free clears pcs/frames; EncodeEntry's result is a function of the receiver's context bytes, the entry and the fields only (its contract mentions no pool state) and the buffer it returns is not referenced by the encoder any more; FullPath/TrimmedPath hand their scratch buffer back before returning and change no pre-existing byte.",
   note=BASE_NOTE + "sync.Pool is modelled as 'Get returns an object nobody else holds, in the state the last Put (or New) left it'; New functions of the pools are trivial literals (not verified). Concurrent histories are not covered.",
   ref="7 (C08)"),
 "C10": dict(
   text="Proof: Field.AddTo never panics for well-typed fields and leaves the JSON encoder well-formed in every case; a failing marshaler / Stringer / error / reflected value costs at most one extra '<key>Error' string member written after the field's own encoder call, and addFields calls AddTo exactly once per field whatever earlier ones did; encodeStringer/encodeError contain a panicking or nil String()/Error() (the path on which the callee panics is explored: the deferred function recovers, logs '<nil>' or reports PANIC=..., the function returns normally); AppendArray/AppendObject write the closing bracket also when the marshaler failed, AddReflected writes nothing when encoding failed; error arrays skip nil elements and free every wrapper; CheckedEntry.Write, multiCore.Write/Sync, multiWriteSyncer.Write/Sync and hooked.Write visit every core/sink/hook exactly once and fold all errors; ioCore.Write returns encoder or sink errors and frees the buffer on the sink-error path too.",
   note=BASE_NOTE + "User String()/Error()/MarshalLog* are arbitrary under the interface contracts (may panic / return errors); Error() of an error RETURNED by a marshaler is called outside a recover (a panic there propagates - not in the property's fault list, stated as an assumption); stringers[T] (zap.Stringers) calls String() bare and is not verified (no instance in the program).",
   ref="7 (C10)"),
 "C16": dict(
   text="Proof on the console encoder: the column sub-encoders run at most once each, in the fixed order time, level, name, caller, then the function column, each exactly when its key and encoder are set and the entry carries a value (call log with time stamps); one Fprint per collected column before the context; the message follows, preceded by the separator exactly when the line is non-empty, whenever its key is set; writeContext appends nothing when there is neither context nor field, otherwise the separator (when the line is non-empty) and exactly one well-formed JSON object (T-JSON automaton from start to accepting state) holding the context followed by the call-site fields with every namespace closed - rendered by a CLONE, the logger's own context encoder is not written (byte-level frame); the stack follows after a newline exactly when present and enabled; then the line ending. Clone/NewConsoleEncoder establish the fragment invariant of the embedded JSON encoder; pooled slice encoder truncated before Put.",
   note=BASE_NOTE + "The text of the columns is produced by fmt.Fprint over the values the sub-encoders appended (outside: only 'one Fprint per column, in order, separator between' is decided); the JSON context inherits C01's assumptions. 'Same fields as the JSON encoder would emit' holds because both go through the same addFields on a jsonEncoder - not a separate obligation.",
   ref="7 (C16)"),
 "C02": dict(
   text="Proof at the call level (which encoder method receives which value, in which order - not the decimal text): Field.AddTo unpacks the field union by type into exactly one ObjectEncoder call carrying the key and the value without loss (all 28 field types; casts over the full range, floats through their bit patterns, bool as Integer==1, times through time.Unix/In) and the constructors' int64(v) round-trips for every value of every integer width (lemmas); the JSON encoder's narrowing wrappers relay the sign-/zero-extended value and the right bit size (AddInt8..AddUintptr, AppendInt..AppendFloat32/Complex64), each keyed Add* writes the key then the value; EncodeEntry emits the metadata keys in the order level, time, name, caller, function, message with exactly the stated presence conditions, then the context bytes (iff non-empty), then the call-site fields (one AddTo per field, in order), closes the namespaces and only then writes the stack key; encodeError writes the message under the key, the causes under key+Causes exactly for error groups, the verbose form under key+Verbose only for a Formatter whose verbose text differs.",
   note=BASE_NOTE + "Not decided here: text<->value round trips of strconv, time.Format, encoding/json, fmt and Duration.String (assumed dependencies; 'floats bit-for-bit from their shortest decimal' is strconv's contract); base64 text; equality with the in-memory map encoder (MapObjectEncoder is not under contract; the argument that both see the same call sequence is a paper step); the independent reference encoder of the property's oracle is a testing device and is not built. For a nil time/duration/name/caller sub-encoder the JSON encoder emits the default representation instead of omitting the part; only the level column is omitted with its encoder (as the code, the docs and TestJSONEmptyConfig agree).",
   ref="7 (C02)"),
 "C07": dict(
   text="Proof of the derivation mechanisms with full frames: Logger.clone/With/Named/WithOptions/Sugar/Desugar write only the freshly allocated clone (*log == old(*log)), With(no fields) returns the receiver, Named joins with a dot exactly when both names are non-empty; Logger.check stamps the entry with the logger's own name and hands call-site fields on unchanged; every zap Core.With implementation (ioCore with the JSON or console encoder: a clone of the encoder with its own buffer gets exactly the new fields, the receiver's encoder and every pre-existing byte untouched; tee, sampler, hooked, level-filter, lazy, observer) is verified against the Core.With interface contract (result non-nil, no pre-existing Field, Core slice or byte array written), forwards exactly the given fields to the wrapped core and re-wraps it leaving the receiver unchanged; the observer's capacity-capped append leaves the parent's context array untouched (both append branches explored); the lazy core evaluates its With exactly once (sync.Once model) with the original fields.",
   note=BASE_NOTE + "Logger.WithLazy's option closure and the sugared With/Named/WithLazy wrappers are not yet under contract; the byte-level statement 'context bytes = parent bytes ++ enc(fields)' is part of the C01/C02 encoder contracts, not proved here. 'All orders of derivation and use' follows from the frames (no derivation writes a location reachable from another logger) - a paper step over the proved frames.",
   ref="7 (C07)"),
 "C09": dict(
   text="Proof of the synchronisation discipline, per function, on every path: guarded-by obligations at every load/store of _globalL/_globalS (under _globalMu), sinkRegistry.factories and _encoderNameToConstructor (under their mutexes), ObservedLogs.logs, BufferedWriteSyncer.{initialized,stopped,writer}; a coverage scan fails the check if any zap function touching a guarded location is not under contract; lock balance (Lock requires not held, Unlock requires held, released at every return incl. deferred unlocks); no blocking channel operation while BufferedWriteSyncer.mu is held (Stop, flushLoop); stop channel closed at most once (stopped <=> closed(stop)); lazyWithCore.core is stored only inside the Once.Do function and loaded only after the Once completed on the same path; Enabled reads only the immutable originalCore; no-panic (nil, index, type-assertion, close safety) for all these functions.",
   note=BASE_NOTE + "There is no interleaving semantics: data-race freedom of the guarded state follows from the proved discipline only by the (unmechanised) lock-invariant soundness theorem and the Go memory model; deadlock freedom is covered only as 'no blocking under zap's own locks'; Logger/SugaredLogger immutability-after-publish, atomics-only access to counters and AtomicLevel, and the slog handler are not yet covered by obligations. sync.Mutex/RWMutex/Once are modelled (contracts/std/sync.spec).",
   ref="7 (C09)"),
 "C03": dict(
   text="Proof: every typed constructor of package zap (69 functions: scalars, pointer variants, slice wrappers, NamedError/Error, Reflect/Stringer/Object/Inline/Namespace/Skip) yields exactly the tagged-union field its documentation announces, for all values of the parameter type (bit-vector arithmetic for every cast); pointer variants give the explicit-null field for nil; Field.Equals never panics on well-formed fields (comparability obligations on ==).",
   note=BASE_NOTE + "zap.Any's dispatch (interface method call through a generic function value) is outside the executor's subset: its contract is marked trusted and NOT counted as proved; in its place a BOUNDED stand-in runs on every check (evidence coverage.bounded): every case of the type switch, enumerated from field.go on that run, zero value plus 40 pseudo-random values per case type, compared with the typed constructor by DeepEqual, plus the documented precedence of the interface cases and the reflection fallback; Time/Timep/Stack/Dict/generic slice constructors and zapfield are not under contract yet; Equals' reflexivity/symmetry are not proved (reflect.DeepEqual and NaN payloads).",
   ref="7 (C03)"),
 "C06": dict(
   text="Proof of the call chain for every front end under contract (Logger.{Debug..Fatal,Log,Check}, all 32 SugaredLogger methods via log/logln, zapgrpc Fatal/Fatalln/Fatalf): exactly one check at the method's level; at Panic/Fatal (DPanic in development) the checked entry is non-nil and carries override(default, configured hook) whether or not the level is enabled or the core accepts; CheckedEntry.Write writes every core exactly once, in order, then runs the hook exactly once; default actions panic / call exit.With(1); ioCore.Write syncs after a successful write above Error.",
   note=BASE_NOTE + "Real process exit, the exit status seen from outside and sink contents at termination are outside (crash points). User hooks and cores are arbitrary under the interface contracts.",
   ref="7 (C06)"),
 "C14": dict(
   text="Proof: sweetenFields never panics (index safety for key/value pairs) and satisfies the conservation invariant in counting form - every consumed argument position is accounted for by a result field, a diagnostic error-level entry, an Any conversion or an invalid pair; at most one invalid-pairs report; message construction of getMessage/getMessageln by cases; every sugared method hands its level, template and arguments to log/logln unchanged.",
   note=BASE_NOTE + "fmt.Sprint/Sprintf/Sprintln are uninterpreted (deterministic); zap.Any is trusted here (C03). The order clause (fields keep argument order) is not proved. Infof(\"\", args) uses Sprint, which equals the property's reading only through fmt's behaviour (not decided).",
   ref="7 (C14)"),
 "C05": dict(
   text="Proof per function: delivery iff enabled through ioCore/tee/level-filter/hooked/sampler Check (each verified against the Core.Check interface contract, which is the AddCore accumulation discipline), increase-level validation over all seven levels, LevelOf / tee / AtomicLevel / Logger.Level reports for all 256 int8 values, the Logger.check pre-check does nothing else (no clock read, no Check, no Write).",
   note=BASE_NOTE + "Level enablers are functions of (enabler, level) within one verified call; user cores obey the Core.Check interface contract (encapsulation rely). Out-of-range levels under non-monotone enablers in an increase-level core: not proved.",
   ref="7 (C05)"),
 "C15": dict(
   text="Proof of the skip arithmetic, which is all zap's own code contributes: every runtime.Callers call in Capture uses skip+2 (all doubling iterations), Logger.check calls Capture with callerSkip+2 and the full depth exactly when the stack-trace level is enabled for the entry, Capture's loop exits only when the frames fitted (complete chain whatever its depth), Sugar adds exactly 2 and Desugar removes exactly 2 (clone leaves everything else equal), AddCallerSkip(k) adds exactly k, every front end reaches check through the fixed call structure (tracks: one direct call per layer).",
   note=BASE_NOTE + "runtime.Callers/CallersFrames semantics, inlining, the frame depth of package log (_stdLogDefaultDepth+_loggerWriterDepth = 3) and of slog are assumptions; file/line/function strings come from the runtime and are outside. The composition 'call depth difference 2 = Sugar's +2' is a paper step over the machine-checked pieces (DESIGN.md).",
   ref="7 (C15)"),
 "C17": dict(
   text="Proof of stream conservation for every Write: logged' ++ buffered' == logged ++ buffered ++ input (ghost byte streams, loop invariant over any chunk), the buffered remainder is newline-free, nothing is logged and nothing buffered while the level is disabled, Write returns (len, nil); writeLine by cases on the first newline (direct-log fast path and buffered path log the same bytes); Sync/Close emit the unterminated rest exactly when it is non-empty. From conservation + newline-freedom the messages are exactly the lines, for every partition of every stream.",
   note=BASE_NOTE + "bytes.Buffer and bytes.IndexByte are assumed (contracts/std/bytesbuf.spec); T-Bytes axioms are trusted; the uniqueness step (conservation + newline-free pieces determine the line split) is a paper lemma. logged[w] is ghost state extended by definition at each call of w.log.",
   ref="7 (C17)"),
 "C18": dict(
   text="Proof on the handler: convertSlogLevel is the four-step mapping and monotone (lemma, all int levels); Enabled and Handle consult the core with exactly the mapped level and Handle writes exactly when the core's Check accepts (a nil checked entry ends the call: no stack capture, no attribute walk, no write); the entry carries the record's time and message and the handler's name; attribute conversion by kind (bool, duration, float, int, string, time, uint keep key and value; the empty attribute and a group without attributes are skipped; a keyless group is inlined, a keyed one nested under its key holding exactly its attributes; a LogValuer is resolved first; every result is a well-typed field), group marshaling converts the members in order (verified against the ObjectMarshaler interface contract, so nesting to any depth inherits C01's well-formedness); pending groups are emitted as namespaces once, before the first field that is not skipped, in Handle's per-attribute function and in WithAttrs; WithGroup(\"\") returns the receiver, otherwise the clone gets the receiver's groups plus the new one in a slice of its own; WithAttrs/WithGroup never write the receiver nor any string slot that existed before (isolation by framing); stack capture from the configured slog level with skip 3 + callerSkip.",
   note=BASE_NOTE + "log/slog accessors (Kind, Bool, ... Group, Resolve, Record.Attrs, NumAttrs) are assumed pure / as documented; zap.Any (default kind) and stacktrace.Take are trusted; the content of the emitted fields beyond key/type/value of the scalar kinds follows from C02/C03 contracts. The caller annotation from record.PC relies on runtime.CallersFrames (assumed).",
   ref="7 (C18)"),
 "C19": dict(
   text="Proof: open() - at the moment closeAll is called the closers slice holds exactly the sinks whose open succeeded (positional countOK invariant over the call log, any number of paths and failure positions), closeAll closes every element, and it is called exactly on the error path; Open/openSinks/Build sequencing (second Open failing closes the first set; after openSinks succeeded Build cannot fail); redirectStdLogAt restores nothing because it changes nothing on error (ghost std-logger cells); file-URL checks (user, fragment, query, port, host) before exactly the path is opened with O_WRONLY|O_APPEND|O_CREATE 0666; RegisterSink/RegisterEncoder leave the registry untouched on error and add exactly one entry otherwise; scheme normalisation loop.",
   note=BASE_NOTE + "url.Parse, filepath.IsAbs, os.OpenFile, package log and strings.ToLower are assumed; real files and descriptors are outside. Config.buildOptions and zap.New are trusted (not verified). A registered nil factory/constructor would panic at use (RegisterSink does not reject nil) - outside the property.",
   ref="7 (C19)"),
 "C20": dict(
   text="Proof: name tables of String/CapitalString for the seven levels, unmarshalText/UnmarshalText/Set/ParseLevel accept exactly the listed names (then lower-cased) and leave the target untouched on rejection, round-trip lemmas for all valid levels, AtomicLevel get/set for all int8 values, serveHTTP: SetLevel only after a successful decode of a PUT and to exactly the decoded level, 400/405 otherwise with the level unchanged.",
   note=BASE_NOTE + "encoding/json, net/http and bytes.ToLower are assumed (the seven ToLower facts are executed as ground tests every run); what the JSON decoder accepts as well-formed is the library's behaviour.",
   ref="7 (C20)"),
}

def git(*a):
    return subprocess.run(['git', '-C', '/repo'] + list(a), capture_output=True, text=True).stdout.strip()

hook_commits = [l.split()[0] for l in git('log', '--format=%h %s').splitlines() if l.split(' ', 1)[1].startswith('verif:')]

m = {
 "version": 1,
 "setup_cmd": "./setup.sh",
 "hooks": {
   "guard": "verif",
   "enable": "-tags verif: the only hook files are comment-only zz_contracts_verif.go (//go:build verif) holding //@ contracts; govc loads /repo with the tag on",
   "baseline_off_cmd": "for m in . exp zapgrpc/internal/test; do (cd /repo/$m && GOFLAGS=-mod=mod go test -vet=off -count=1 -timeout 25m ./...); done",
   "source_commits": hook_commits,
   "add_only": True,
 },
 "engines": [{"name": "govc", "path": "govc/", "serves_properties": sorted(claimed), "kind_free_text": "VC generator over go/ssa + contract language + SMT solver race (z3 5.1, cvc5 1.0; z3 4.8.12 for models only)"}],
 "checks": [],
 "not_applicable": [],
 "notes": "See DESIGN.md. known_findings.txt lists recorded/fixed defects; tools/mut.sh runs a check against a mutated scratch copy.",
}
for p in props:
    if p in claimed:
        c = claimed[p]
        m["checks"].append({
          "property_id": p,
          "quick_cmd": f"./check {p} --tier quick",
          "thorough_cmd": f"./check {p} --tier thorough",
          "evidence_file": f"evidence/{p}.json",
          "replay_cmd_template": "bin/govc replay {path}",
          "engine": "govc",
          "level_claimed": {"category": "proof", "text": c["text"], "design_ref": c["ref"]},
          "level_note": c["note"],
          "technique": TECH,
        })
    else:
        m["not_applicable"].append({"property_id": p, "reason": "contracts for this property are not built yet (framework under construction; plan in DESIGN.md section 7)"})
json.dump(m, open(os.path.join(ROOT, 'MANIFEST.json'), 'w'), indent=1)
print("claimed:", sorted(claimed))
