#!/usr/bin/env python3
"""Rewrites the measured-numbers table of DESIGN.md section 0.1 from evidence/*.json (between the markers)."""
import json, glob, os, re
root = os.path.dirname(os.path.dirname(os.path.abspath(__file__)))
rows = ['| id | functions under contract | obligations (all discharged) | wall s | trusted zap functions (contract assumed, body not verified) |', '|---|---|---|---|---|']
for f in sorted(glob.glob(os.path.join(root, 'evidence', 'C*.json'))):
    ev = json.load(open(f)); cov = ev['coverage']
    trusted = sorted(a[5:] for a in ev.get('assumptions', []) if a.startswith('func '))
    n = len(cov.get('functions_under_contract', []))
    rows.append('| %s | %d | %d%s | %d | %s |' % (ev['property_id'], n, cov['obligations'], '' if cov['obligations'] == cov['discharged'] else ' (%d discharged)' % cov['discharged'], round(ev.get('wall_s', 0)), ', '.join('`%s`' % t for t in trusted) or '—'))
p = os.path.join(root, 'DESIGN.md'); s = open(p).read()
a, b = s.index('<!-- table:measured -->'), s.index('<!-- /table:measured -->')
s = s[:a] + '<!-- table:measured -->\n' + '\n'.join(rows) + '\n' + s[b:]
open(p, 'w').write(s)
print('\n'.join(rows))
