#!/bin/bash
# usage: overlay-test.sh <repo> <pkgdir-relative> <testfile> <-run regex>
# Runs an in-package test injected through -overlay (nothing is written under the repo).
set -u
repo=$1; pkg=$2; tf=$3; run=$4
export GOFLAGS=-mod=mod GOPROXY=off GOSUMDB=off GOTOOLCHAIN=local
tmp=$(mktemp -d /tmp/ovl.XXXXXX)
dst=$repo/$pkg/zz_verif_overlay_$(basename $tf)
printf '{"Replace":{"%s":"%s"}}' "$dst" "$tf" > $tmp/ov.json
(cd $repo/$pkg && ulimit -v 8000000; go test -overlay $tmp/ov.json -vet=off -count=1 -timeout 60s -run "$run" . 2>&1 | tail -15)
rc=${PIPESTATUS[0]}
rm -rf $tmp
exit $rc
