#!/usr/bin/env python3
"""usage: seed-record.py <PROP> [srcdir] [dstname]  - runs tools/seed-eval.sh, and if the change is confirmed
(demo passes unchanged, fails with change, suite passes) stores it under /verif/seeded/<dstname>/ with the outcome."""
import json, os, re, shutil, subprocess, sys
prop = sys.argv[1]
src = sys.argv[2] if len(sys.argv) > 2 else f'/tmp/seed_out/{prop}'
dst = f'/verif/seeded/{sys.argv[3] if len(sys.argv) > 3 else prop}'
out = subprocess.run(['/verif/tools/seed-eval.sh', prop, src], capture_output=True, text=True).stdout
print(out[-3500:])
sec = re.split(r'^== ', out, flags=re.M)
def part(name):
    for s in sec:
        if s.startswith(name): return s
    return ''
unchanged_ok = 'ok ' in part('demo on unchanged') and 'FAIL' not in part('demo on unchanged')
changed_fail = 'FAIL' in part('demo with change')
suite = part('existing suite with change')
suite_ok = 'FAIL' not in suite and 'panic' not in suite
viol = [l for l in out.splitlines() if l.startswith('VIOLATION')]
obl = [l.strip()[3:].strip() for l in out.splitlines() if l.strip().startswith('->')]
meta = json.load(open(os.path.join(src, 'meta.json')))
meta['origin'] = 'fresh sub-agent given only the property text and a scratch worktree without the contract files'
meta['confirmed_by_me'] = {'command': f'tools/seed-eval.sh {prop} {src}', 'demo_passes_unchanged': unchanged_ok, 'demo_fails_with_change': changed_fail, 'suite_with_change': 'passes' if suite_ok else suite.strip()[-400:]}
meta['check_result'] = {'violations': len(viol), 'failed_obligations': obl[:8]}
if not (unchanged_ok and changed_fail and suite_ok):
    print('NOT CONFIRMED - not stored'); sys.exit(1)
os.makedirs(dst, exist_ok=True)
for f in ('patch.diff', 'demo_test.go'):
    if os.path.abspath(src) != os.path.abspath(dst): shutil.copy(os.path.join(src, f), os.path.join(dst, f))
json.dump(meta, open(os.path.join(dst, 'meta.json'), 'w'), indent=1)
print('stored', dst, 'violations:', len(viol))
