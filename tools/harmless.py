#!/usr/bin/env python3
"""usage: harmless.py [PROP...] - must-pass corpus: every semantics-preserving edit of selftest/harmless.tsv is applied to a
scratch copy of /repo (outside /repo and /verif, removed afterwards), the copy must still build and pass the package's own
tests, and the quick check of the property must report NO violation (a violation here is a false alarm of the machinery)."""
import os, shutil, subprocess, sys, tempfile
root = os.path.dirname(os.path.dirname(os.path.abspath(__file__)))
repo = os.environ.get('VERIF_REPO', '/repo')
env = dict(os.environ, GOFLAGS='-mod=mod', GOPROXY='off', GOSUMDB='off', GOTOOLCHAIN='local')
want = set(sys.argv[1:])
bad = 0
for l in open(os.path.join(root, 'selftest', 'harmless.tsv')):
    if l.startswith('#') or not l.strip():
        continue
    cols = l.rstrip('\n').split('\t')
    prop, pairs = cols[0], cols[1:]
    if want and prop not in want:
        continue
    d = tempfile.mkdtemp(prefix='verif-harmless-')
    try:
        subprocess.run(['rsync', '-a', '--exclude', '.git', repo + '/', d + '/'], check=True)
        applied = True
        for k in range(0, len(pairs) - 1, 2):
            f = os.path.join(d, pairs[k])
            before = open(f).read()
            subprocess.run(['sed', '-i', pairs[k + 1], f])
            applied = applied and open(f).read() != before
        name = f'{pairs[0]}:{pairs[1][:50]}'
        if not applied:
            print(f'HARMLESS {prop} {name}: does not apply (skipped)'); continue
        pkgdir = os.path.dirname(os.path.join(d, pairs[0]))
        b = subprocess.run(['go', 'test', '-count=1', '-vet=off', '.'], cwd=pkgdir, env=env, capture_output=True, text=True)
        if b.returncode != 0:
            print(f'HARMLESS {prop} {name}: edit breaks the build or the package tests - not a harmless edit (skipped)\n' + b.stdout[-400:] + b.stderr[-400:]); continue
        r = subprocess.run([os.path.join(root, 'bin', 'govc'), 'check', '--repo', d, '--prop', prop, '--tier', 'quick', '--scratch', os.path.join(d, '.verif-scratch')], env=env, capture_output=True, text=True)
        v = [x for x in r.stdout.splitlines() if x.startswith('VIOLATION')]
        if v:
            bad += 1
            print(f'HARMLESS {prop} {name}: FALSE-ALARM ({len(v)} violations), first: ' + v[0].replace(d + '/', '')[:200])
        else:
            print(f'HARMLESS {prop} {name}: silent (ok)')
    finally:
        shutil.rmtree(d, ignore_errors=True)
sys.exit(1 if bad else 0)
