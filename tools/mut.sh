#!/bin/bash
# usage: mut.sh <prop> <file-relative-to-repo> <sed-expression> [more file/expr pairs...]
# Applies the edit to a scratch copy of /repo, checks it compiles, runs the property check there.
set -u
prop=$1; shift
d=$(mktemp -d /tmp/mut.XXXXXX)
rsync -a --exclude .git /repo/ $d/
while [ $# -ge 2 ]; do
  f=$1; e=$2; shift 2
  sed -i "$e" $d/$f
  if cmp -s /repo/$f $d/$f; then echo "MUTATION DID NOT APPLY: $f $e"; rm -rf $d; exit 3; fi
done
export GOFLAGS=-mod=mod GOPROXY=off GOSUMDB=off GOTOOLCHAIN=local
if ! (cd $d && go build ./... 2>&1 | head -5); then echo "mutant does not build"; fi
/verif/bin/govc check --repo $d --prop $prop --scratch $d/.verif-scratch | grep -v "^KNOWN" | sed "s#$d/##g" | head -${MUT_LINES:-8}
for r in $(ls $d/.verif-scratch/out/replay/$prop/*.json 2>/dev/null | head -${MUT_LINES:-8}); do python3 -c "
import json,sys
j=json.load(open('$r')); print('   ->', j.get('obligation'), '|', j.get('verdict'), '|', (j.get('descr') or j.get('error') or '')[:150])
r=j.get('replay')
if isinstance(r,dict): print('      replay:', r.get('inputs'), 'reproduced:', r.get('reproduced_on_real_code'), '|', (r.get('output') or r.get('error') or '').strip().splitlines()[0:2])
"; done
rm -rf $d
