#!/bin/bash
# usage: lean-theory.sh   -> regenerates lean/Statements.lean + lean/All.lean from the SMT-LIB text of the
# T-Bytes axioms (govc/arith.go, govc/smt.go, contracts/std/json.spec) and checks with Lean 4 (core library
# only, no Mathlib) that the list model of lean/Model.lean satisfies every one of them (lean/Proofs.lean)
# and the defining equations of T-JSON's uninterpreted symbols (lean/JsonDefs.lean). Prints one JSON line.
cd "$(dirname "$0")/.."
t0=$(date +%s.%N)
log=$(mktemp)
ok=1
python3 tools/gen_lean.py > $log 2>&1 || ok=0
n=$(grep -c 'def ax_' lean/Statements.lean)
build=$(mktemp -d)
cp lean/*.lean $build/
( cd $build && export LEAN_PATH=$build && \
  lean Model.lean -o Model.olean && lean Statements.lean -o Statements.olean && \
  lean Proofs.lean -o Proofs.olean && lean JsonDefs.lean -o JsonDefs.olean && \
  { cat All.lean; grep -o 'theorem [a-z0-9_]*_holds' Proofs.lean | sed 's/theorem \(.*\)/#print axioms TBytes.\1/'; \
    for t in run_empty run_snoc jprefix_def safe_def_empty safe_def_snoc scalar_def_empty scalar_def_snoc value_def push_zero push_unfold; do echo "#print axioms TJson.$t"; done; } > Check.lean && \
  sed -i 's/^import Proofs$/import Proofs\nimport JsonDefs/' Check.lean && lean Check.lean ) >> $log 2>&1 || ok=0
if grep -q 'sorryAx\|error' $log; then ok=0; fi
# only Lean's standard axioms may be used
bad=$(grep "depends on axioms" $log | grep -v -E '^[^[]*\[(propext|Classical\.choice|Quot\.sound)(, (propext|Classical\.choice|Quot\.sound))*\]$' | head -3)
if [ -n "$bad" ]; then ok=0; fi
t1=$(date +%s.%N)
python3 - "$ok" "$n" "$log" "$t0" "$t1" <<'PY'
import json,sys
ok,n,log,t0,t1=sys.argv[1:]
out=open(log).read()
print(json.dumps({"theory_model_check":{"tool":"lean 4 (core library, no Mathlib)","model":"lean/Model.lean: byte strings = List (Fin 256)","axioms_proved_in_model":int(n),"json_definitions_proved":10,"passed":ok=="1","seconds":round(float(t1)-float(t0),1),"output_tail":out[-600:] if ok!="1" else ""}}))
PY
rm -rf $build $log
[ "$ok" = 1 ]
