#!/usr/bin/env python3
"""usage: selftest.py <PROP>  - must-fail corpus of the property (thorough tier): every seeded change and every
hand-made mutant for the property is applied to a scratch copy of /repo (outside /repo and /verif, removed
afterwards) and the quick check is run against it; a change that still verifies is a hole in the
contracts. Prints one line per item and a JSON summary on the last line. Never touches /repo."""
import json, os, shutil, subprocess, sys, tempfile, glob
prop = sys.argv[1]
root = os.path.dirname(os.path.dirname(os.path.abspath(__file__)))
repo = os.environ.get('VERIF_REPO', '/repo')
env = dict(os.environ, GOFLAGS='-mod=mod', GOPROXY='off', GOSUMDB='off', GOTOOLCHAIN='local')
items = []
for d in sorted(glob.glob(os.path.join(root, 'seeded', '*'))):
    try:
        m = json.load(open(os.path.join(d, 'meta.json')))
    except Exception:
        continue
    if m.get('property') == prop:
        items.append(('seeded/' + os.path.basename(d), 'patch', os.path.join(d, 'patch.diff')))
mf = os.path.join(root, 'selftest', 'mutants.tsv')
if os.path.exists(mf):
    for i, l in enumerate(open(mf)):
        if l.startswith('#') or not l.strip():
            continue
        cols = l.rstrip('\n').split('\t')
        p, f, e = cols[:3]
        if p == prop:
            items.append((f'mutant:{f}:{e[:40]}', 'sed', (f, e, cols[3:])))  # further columns: more file / expression pairs
res = []
for name, kind, arg in items:
    d = tempfile.mkdtemp(prefix='verif-selftest-')
    try:
        subprocess.run(['rsync', '-a', '--exclude', '.git', repo + '/', d + '/'], check=True)
        if kind == 'patch':
            r = subprocess.run(['patch', '-p1', '--no-backup-if-mismatch', '-i', arg], cwd=d, capture_output=True, text=True)
            applied = r.returncode == 0
        else:
            f, e, more = arg
            before = open(os.path.join(d, f)).read()
            subprocess.run(['sed', '-i', e, os.path.join(d, f)])
            applied = open(os.path.join(d, f)).read() != before
            for k in range(0, len(more) - 1, 2):
                subprocess.run(['sed', '-i', more[k + 1], os.path.join(d, more[k])])
        if not applied:
            res.append({'item': name, 'outcome': 'does-not-apply'})
            print(f'SELFTEST {prop} {name}: does not apply to the current tree (skipped)')
            continue
        b = subprocess.run(['go', 'build', './...'], cwd=d, env=env, capture_output=True, text=True)
        if b.returncode != 0:
            res.append({'item': name, 'outcome': 'does-not-build'})
            print(f'SELFTEST {prop} {name}: does not build (skipped)')
            continue
        r = subprocess.run([os.path.join(root, 'bin', 'govc'), 'check', '--repo', d, '--prop', prop, '--tier', 'quick', '--scratch', os.path.join(d, '.verif-scratch')], env=env, capture_output=True, text=True)
        v = [l for l in r.stdout.splitlines() if l.startswith('VIOLATION')]
        repro = [l for l in v if 'no-failing-input-found' not in l]
        outcome = 'detected' if v else 'MISSED'
        res.append({'item': name, 'outcome': outcome, 'violations': len(v), 'replayed_on_real_code': len(repro)})
        print(f'SELFTEST {prop} {name}: {outcome} ({len(v)} failing obligations, {len(repro)} replayed on the real code)')
    finally:
        shutil.rmtree(d, ignore_errors=True)
print(json.dumps({'selftest': res}))
